// C14 monitor: UTF-8 decoders (cppcms + booster) and single-byte validators against an
// independent reference written from Unicode Table 3-7.
#include "common/vh.h"
#include <cppcms/encoding.h>
#include <booster/locale/utf.h>
#include <booster/locale/encoding_utf.h>
#include "utf_iterator.h"
#include "encoding_validators.h"

using namespace vh;

// ---------- reference (Unicode 15, Table 3-7: well-formed UTF-8 byte sequences) ----------
struct ref_res { bool ok; uint32_t cp; int len; };
static inline bool in(unsigned c, unsigned lo, unsigned hi) { return lo <= c && c <= hi; }
static ref_res ref_decode(unsigned char const *p, int n)
{
	ref_res bad = { false, 0, 0 };
	if (n < 1) return bad;
	unsigned b0 = p[0];
	if (b0 <= 0x7F) return { true, b0, 1 };
	if (in(b0, 0xC2, 0xDF)) {
		if (n < 2 || !in(p[1], 0x80, 0xBF)) return bad;
		return { true, ((b0 & 0x1Fu) << 6) | (p[1] & 0x3Fu), 2 };
	}
	if (in(b0, 0xE0, 0xEF)) {
		if (n < 3) return bad;
		unsigned lo = 0x80, hi = 0xBF;
		if (b0 == 0xE0) lo = 0xA0;
		if (b0 == 0xED) hi = 0x9F;
		if (!in(p[1], lo, hi) || !in(p[2], 0x80, 0xBF)) return bad;
		return { true, ((b0 & 0x0Fu) << 12) | ((p[1] & 0x3Fu) << 6) | (p[2] & 0x3Fu), 3 };
	}
	if (in(b0, 0xF0, 0xF4)) {
		if (n < 4) return bad;
		unsigned lo = 0x80, hi = 0xBF;
		if (b0 == 0xF0) lo = 0x90;
		if (b0 == 0xF4) hi = 0x8F;
		if (!in(p[1], lo, hi) || !in(p[2], 0x80, 0xBF) || !in(p[3], 0x80, 0xBF)) return bad;
		return { true, ((b0 & 0x07u) << 18) | ((p[1] & 0x3Fu) << 12) | ((p[2] & 0x3Fu) << 6) | (p[3] & 0x3Fu), 4 };
	}
	return bad;
}
// html-safe mode: additionally no C0 except TAB/LF/CR and no C1; U+007F is a don't-care (-1)
static int ref_html_ok(uint32_t cp)
{
	if (cp == 0x7F) return -1;
	if (cp < 0x20) return cp == 9 || cp == 10 || cp == 13;
	if (cp >= 0x80 && cp <= 0x9F) return 0;
	return 1;
}

static unsigned long long g_cases = 0, g_valid = 0, g_nontrivial = 0, g_del = 0;
static int g_reported = 0;

static void report(char const *what, unsigned char const *b, int n, std::string const &extra)
{
	if (g_reported++ > 10) return;
	std::string s((char const *)b, n);
	O().viol(std::string("utf8-decoder:") + what, "bytes=" + hex(s) + " " + extra, "{\"bytes\":\"" + hex(s) + "\"}");
}

static inline void check_one(unsigned char const *b, int n)
{
	g_cases++;
	ref_res r = ref_decode(b, n);
	if (b[0] >= 0x80) g_nontrivial++;
	if (r.ok) g_valid++;
	// cppcms, plain mode
	{
		unsigned char const *p = b, *e = b + n;
		uint32_t v = cppcms::utf8::next(p, e, false);
		bool ok = v != cppcms::utf::illegal;
		if (ok != r.ok) report("cppcms-plain-accept", b, n, ok ? "accepted ill-formed" : "rejected well-formed");
		else if (ok && (v != r.cp || p - b != r.len)) report("cppcms-plain-value", b, n, "cp=" + std::to_string(v) + " consumed=" + std::to_string(p - b));
		if (p > e) report("cppcms-plain-overrun", b, n, "");
	}
	// cppcms, html mode
	{
		unsigned char const *p = b, *e = b + n;
		uint32_t v = cppcms::utf8::next(p, e, true);
		bool ok = v != cppcms::utf::illegal;
		int want = r.ok ? ref_html_ok(r.cp) : 0;
		if (want < 0) { g_del++; }
		else if (ok != (want == 1)) report("cppcms-html-accept", b, n, ok ? "accepted" : "rejected");
		else if (ok && (v != r.cp || p - b != r.len)) report("cppcms-html-value", b, n, "cp=" + std::to_string(v));
		if (p > e) report("cppcms-html-overrun", b, n, "");
	}
	// booster
	{
		unsigned char const *p = b, *e = b + n;
		booster::locale::utf::code_point v = booster::locale::utf::utf_traits<char>::decode(p, e);
		bool ok = v != booster::locale::utf::illegal && v != booster::locale::utf::incomplete;
		if (ok != r.ok) report("booster-accept", b, n, ok ? "accepted ill-formed" : "rejected well-formed");
		else if (ok && (v != r.cp || p - b != r.len)) report("booster-value", b, n, "cp=" + std::to_string(v));
		if (p > e) report("booster-overrun", b, n, "");
	}
}

static void mode_enum(args const &a)
{
	int from = (int)a.num("from", 0), to = (int)a.num("to", 256);
	bool quick = a.has("quick");
	unsigned char b[8];
	if (a.has("short")) {
		for (int len = 1; len <= 3; len++) {
			unsigned long long total = 1ull << (8 * len);
			for (unsigned long long v = 0; v < total; v++) {
				for (int i = 0; i < len; i++) b[i] = (unsigned char)(v >> (8 * (len - 1 - i)));
				check_one(b, len);
			}
		}
	}
	static const int bnd[] = { 0x00, 0x0a, 0x41, 0x7f, 0x80, 0x81, 0x8f, 0x90, 0x9f, 0xa0, 0xbe, 0xbf, 0xc0, 0xc2, 0xe0, 0xed, 0xf0, 0xf4, 0xff };
	int nb = sizeof bnd / sizeof bnd[0];
	for (int b0 = from; b0 < to; b0++) {
		b[0] = (unsigned char)b0;
		for (int b1 = 0; b1 < 256; b1++) {
			b[1] = (unsigned char)b1;
			if (quick) {
				for (int i = 0; i < nb; i++) for (int j = 0; j < nb; j++) {
					b[2] = (unsigned char)bnd[i]; b[3] = (unsigned char)bnd[j];
					check_one(b, 4);
				}
			} else {
				for (int b2 = 0; b2 < 256; b2++) {
					b[2] = (unsigned char)b2;
					for (int b3 = 0; b3 < 256; b3++) { b[3] = (unsigned char)b3; check_one(b, 4); }
				}
			}
		}
	}
	O().count("decode_cases", (long long)g_cases);
	O().count("decode_wellformed", (long long)g_valid);
	O().count("decode_nonascii_lead", (long long)g_nontrivial);
	O().count("decode_del_dontcare", (long long)g_del);
	char buf[200];
	snprintf(buf, sizeof buf, "{\"mode\":\"enum\",\"lead_from\":%d,\"lead_to\":%d,\"last_bytes\":\"%02x%02x%02x%02x\"}", from, to, b[0], b[1], b[2], b[3]);
	O().sample(buf);
}

// ---------- whole-string functions ----------
static std::string enc(uint32_t cp)
{
	std::string s;
	if (cp < 0x80) s += (char)cp;
	else if (cp < 0x800) { s += (char)(0xC0 | (cp >> 6)); s += (char)(0x80 | (cp & 0x3F)); }
	else if (cp < 0x10000) { s += (char)(0xE0 | (cp >> 12)); s += (char)(0x80 | ((cp >> 6) & 0x3F)); s += (char)(0x80 | (cp & 0x3F)); }
	else { s += (char)(0xF0 | (cp >> 18)); s += (char)(0x80 | ((cp >> 12) & 0x3F)); s += (char)(0x80 | ((cp >> 6) & 0x3F)); s += (char)(0x80 | (cp & 0x3F)); }
	return s;
}
static uint32_t rand_html_cp(rng &r)
{
	for (;;) {
		uint32_t cp;
		switch (r.below(6)) {
		case 0: cp = r.range(0x20, 0x7E); break;
		case 1: cp = r.range(0xA0, 0x7FF); break;
		case 2: cp = r.range(0x800, 0xFFFF); break;
		case 3: cp = r.range(0x10000, 0x10FFFF); break;
		case 4: { static const uint32_t e[] = { 9, 10, 13, 0x20, 0x7E, 0xA0, 0x7FF, 0x800, 0xD7FF, 0xE000, 0xFFFD, 0xFFFF, 0x10000, 0x10FFFF }; cp = e[r.below(14)]; break; }
		default: cp = r.range(0x20, 0x7E);
		}
		if (cp >= 0xD800 && cp <= 0xDFFF) continue;
		return cp;
	}
}
// invalid piece; wf=true when it is well-formed UTF-8 but html-unsafe
static std::string rand_bad_piece(rng &r, bool &wf)
{
	wf = false;
	switch (r.below(10)) {
	case 0: { static const unsigned char b[] = { 0xFF, 0xFE, 0xC0, 0xC1, 0xF5, 0xF8, 0xFC }; return std::string(1, (char)b[r.below(7)]); }
	case 1: return std::string(1, (char)r.range(0x80, 0xBF));                          // lone trail
	case 2: { wf = true; static const unsigned char c[] = { 0, 1, 8, 0x0B, 0x0C, 0x0E, 0x1F }; return std::string(1, (char)c[r.below(7)]); }
	case 3: { wf = true; return enc(r.range(0x80, 0x9F)); }                            // C1 control
	case 4: { std::string s = "\xE0"; s += (char)r.range(0x80, 0x9F); s += (char)r.range(0x80, 0xBF); return s; }  // overlong
	case 5: { std::string s = "\xED"; s += (char)r.range(0xA0, 0xBF); s += (char)r.range(0x80, 0xBF); return s; }  // surrogate
	case 6: { std::string s = "\xF4"; s += (char)r.range(0x90, 0xBF); s += (char)r.range(0x80, 0xBF); s += (char)0x80; return s; } // > 10FFFF
	case 7: { std::string s = enc(r.range(0x800, 0xFFFF) | 0x1000); s.resize(s.size() - 1); return s; }  // truncated 3-byte (followed by next piece)
	case 8: { std::string s = "\xF0"; s += (char)r.range(0x80, 0x8F); s += (char)0x80; s += (char)0x80; return s; } // overlong 4
	default: { std::string s = enc(r.range(0x10000, 0x10FFFF)); s.resize(1 + r.below(3)); return s; }  // truncated 4-byte
	}
}

static void mode_strings(args const &a)
{
	rng r(a.num("seed", 1));
	long long cases = a.num("cases", 20000);
	for (long long i = 0; i < cases; i++) {
		int pieces = r.range(0, 40);
		std::string s, valid_only;
		size_t cps = 0;
		bool all_valid = true, wellformed = true;
		bool prev_trunc = false;
		for (int k = 0; k < pieces; k++) {
			if (r.chance(1, r.chance(1, 2) ? 1000 : 8)) {
				bool wf;
				std::string p = rand_bad_piece(r, wf);
				s += p;
				all_valid = false;
				if (!wf) wellformed = false;
			} else {
				uint32_t cp = rand_html_cp(r);
				std::string p = enc(cp);
				s += p; valid_only += p; cps++;
			}
		}
		(void)prev_trunc;
		// expected verdicts and expected filter output from the reference scan (pieces may combine)
		bool ref_ok = true, ref_html = true; size_t ref_cnt = 0;
		valid_only.clear();
		{
			unsigned char const *p = (unsigned char const *)s.data(); size_t n = s.size(), pos = 0;
			while (pos < n) {
				ref_res d = ref_decode(p + pos, (int)std::min<size_t>(4, n - pos));
				if (!d.ok) { ref_ok = false; ref_html = false; pos++; continue; }
				int h = ref_html_ok(d.cp);
				if (h == 0) ref_html = false; else valid_only.append((char const *)p + pos, d.len);
				pos += d.len; ref_cnt++;
			}
		}
		all_valid = ref_html;
		(void)wellformed; (void)cps;
		O().count("strings");
		if (!all_valid) O().count("strings_invalid");
		O().seen("strings", fnv(s));
		char const *b = s.data(), *e = s.data() + s.size();
		std::string rp = "{\"bytes\":\"" + hex(s) + "\"}";
		size_t c1 = 0, c2 = 0, c3 = 0, c4 = 0;
		bool v1 = cppcms::encoding::valid_utf8(b, e, c1);
		bool v2 = cppcms::encoding::valid("UTF-8", b, e, c2);
		bool v3 = cppcms::utf8::validate(b, e, c3, true);
		bool v4 = cppcms::utf8::validate(b, e, c4, false);
		bool v5 = cppcms::utf8::validate(b, e, false);
		if (v1 != ref_html || v2 != ref_html || v3 != ref_html) O().viol("utf8-string:html-validity", "expected " + std::to_string(ref_html) + " bytes=" + hex(s), rp);
		if (v4 != ref_ok || v5 != ref_ok) O().viol("utf8-string:plain-validity", "expected " + std::to_string(ref_ok) + " bytes=" + hex(s), rp);
		if (ref_html && (c1 != ref_cnt || c2 != ref_cnt || c3 != ref_cnt)) O().viol("utf8-string:count", "expected " + std::to_string(ref_cnt) + " got " + std::to_string(c1) + " bytes=" + hex(s), rp);
		if (ref_ok && c4 != ref_cnt) O().viol("utf8-string:count-plain", hex(s), rp);
		// booster conversion API built on the booster decoder
		{
			bool threw = false; std::u32string w;
			try { w = booster::locale::conv::utf_to_utf<char32_t>(b, e, booster::locale::conv::stop); } catch (booster::locale::conv::conversion_error const &) { threw = true; }
			if (threw == ref_ok) O().viol("utf8-string:booster-utf_to_utf", std::string(threw ? "rejected well-formed " : "accepted ill-formed ") + hex(s), rp);
			if (!threw && w.size() != ref_cnt) O().viol("utf8-string:booster-count", hex(s), rp);
			std::string sk = booster::locale::conv::utf_to_utf<char>(b, e, booster::locale::conv::skip);
			size_t cc = 0;
			if (!cppcms::utf8::validate(sk.data(), sk.data() + sk.size(), cc, false)) O().viol("utf8-string:booster-skip-invalid-output", hex(s), rp);
			if (ref_ok && sk != s) O().viol("utf8-string:booster-skip-changed-valid", hex(s), rp);
		}
		// validate_or_filter
		for (int rep = 0; rep < 2; rep++) {
			char repl = rep ? '?' : 0;
			std::string outp = "SENTINEL";
			bool ok = cppcms::encoding::validate_or_filter("utf-8", b, e, outp, repl);
			if (ok != ref_html) O().viol("utf8-filter:return", hex(s), rp);
			if (ok) { if (outp != "SENTINEL") O().viol("utf8-filter:touched-output-on-valid", hex(s), rp); }
			else {
				size_t cc = 0;
				if (!cppcms::encoding::valid_utf8(outp.data(), outp.data() + outp.size(), cc)) O().viol("utf8-filter:output-invalid", "in=" + hex(s) + " out=" + hex(outp), rp);
				if (!rep && outp != valid_only) O().viol("utf8-filter:dropped-or-kept-wrong-text", "in=" + hex(s) + " out=" + hex(outp) + " want=" + hex(valid_only), rp);
				if (rep) {
					// removing the replacement marks that are not in the input's valid part is ambiguous ('?' may be valid text):
					// check the weaker relation: valid_only is a subsequence of the output
					size_t j = 0;
					for (size_t q = 0; q < outp.size() && j < valid_only.size(); q++) if (outp[q] == valid_only[j]) j++;
					if (j != valid_only.size()) O().viol("utf8-filter:replace-lost-valid-text", "in=" + hex(s) + " out=" + hex(outp), rp);
				}
				O().count("filtered");
			}
		}
		if (i < 2) O().sample(rp);
	}
}

// ---------- single-byte code pages ----------
static void mode_codepages(args const &)
{
	struct nm { char const *name; int iso; };
	static const nm names[] = {
		{"latin1",1},{"iso88591",1},{"iso88592",1},{"iso88593",1},{"iso88594",1},{"iso88595",1},{"iso88596",1},{"iso88597",1},{"iso88598",1},{"iso88599",1},
		{"iso885910",1},{"iso885911",1},{"iso885913",1},{"iso885914",1},{"iso885915",1},{"iso885916",1},
		{"windows1250",0},{"windows1251",0},{"windows1252",0},{"windows1253",0},{"windows1254",0},{"windows1255",0},{"windows1256",0},{"windows1257",0},{"windows1258",0},
		{"cp1250",0},{"cp1251",0},{"cp1252",0},{"cp1253",0},{"cp1254",0},{"cp1255",0},{"cp1256",0},{"cp1257",0},{"cp1258",0},
		{"koi8r",0},{"koi8u",0},{"usascii",1},{"ascii",1},
		// alias spellings resolved by the name comparator
		{"ISO-8859-1",1},{"iso_8859-15",1},{"ISO8859-8",1},{"Windows-1252",0},{"CP-1251",0},{"KOI8-R",0},{"US-ASCII",1},{"Latin1",1},{"ISO-8859-6",1},{"WINDOWS-1256",0},{"Windows-1254",0},
	};
	for (auto const &n : names) {
		std::string name = n.name;
		// a name the table does not know goes through the generic converter-based validator: the bytes are judged all the same
		if (!cppcms::encoding::is_ascii_compatible(name)) O().count("codepage_names_not_in_the_validator_table");
		bool one[256];
		for (int c = 0; c < 256; c++) {
			char ch = (char)c; size_t cnt = 0;
			one[c] = cppcms::encoding::valid(name, &ch, &ch + 1, cnt);
			O().count("codepage_bytes");
			std::string rp = "{\"encoding\":\"" + name + "\",\"byte\":" + std::to_string(c) + "}";
			if (one[c] && cnt != 1) O().viol("codepage:count:" + name, rp, rp);
			bool printable = c >= 0x20 && c <= 0x7E;
			bool c0 = c < 0x20 && c != 9 && c != 10 && c != 13;
			if (printable && !one[c]) O().viol("codepage:rejects-printable-ascii:" + name, rp, rp);
			if (c0 && one[c]) O().viol("codepage:accepts-C0:" + name, rp, rp);
			if (c == 0x7F && one[c]) O().viol("codepage:accepts-DEL:" + name, rp, rp);
			if (n.iso && c >= 0x80 && c <= 0x9F && one[c]) O().viol("codepage:accepts-C1:" + name, rp, rp);
			// filter of one byte
			std::string o = "SENT";
			bool ok = cppcms::encoding::validate_or_filter(name, &ch, &ch + 1, o, 0);
			if (ok != one[c] || (ok && o != "SENT") || (!ok && !o.empty())) O().viol("codepage:filter-one-byte:" + name, rp, rp);
		}
		uint64_t sig = 0;
		for (int c = 0; c < 256; c++) sig = mix(sig, one[c]);
		O().seen("codepage_tables", sig);
		for (int x = 0; x < 256; x++) for (int y = 0; y < 256; y++) {
			char p[2] = { (char)x, (char)y }; size_t cnt = 0;
			bool v = cppcms::encoding::valid(name, p, p + 2, cnt);
			O().count("codepage_pairs");
			if (v != (one[x] && one[y]) || (v && cnt != 2)) {
				std::string rp = "{\"encoding\":\"" + name + "\",\"pair\":[" + std::to_string(x) + "," + std::to_string(y) + "]}";
				O().viol("codepage:context-dependent:" + name, rp, rp);
			}
		}
		// filtering a mixed string
		rng r(fnv(name));
		for (int t = 0; t < 200; t++) {
			std::string s = r.bytes(r.range(0, 64)), want, wantr;
			for (unsigned char c : s) { if (one[c]) { want += (char)c; wantr += (char)c; } else wantr += '?'; }
			for (int rep = 0; rep < 2; rep++) {
				std::string o = "SENT";
				bool ok = cppcms::encoding::validate_or_filter(name, s.data(), s.data() + s.size(), o, rep ? '?' : 0);
				bool allv = want.size() == s.size();
				std::string rp = "{\"encoding\":\"" + name + "\",\"bytes\":\"" + hex(s) + "\"}";
				if (ok != allv) O().viol("codepage:filter-return:" + name, rp, rp);
				else if (ok && o != "SENT") O().viol("codepage:filter-touched-valid:" + name, rp, rp);
				else if (!ok && o != (rep ? wantr : want)) O().viol("codepage:filter-output:" + name, rp, rp);
				O().count("codepage_filter_strings");
			}
		}
	}
	O().sample("{\"mode\":\"codepages\",\"names\":" + std::to_string(sizeof names / sizeof names[0]) + "}");
}

int main(int argc, char **argv)
{
	args a(argc, argv);
	std::string mode = a.str("mode", "strings");
	if (mode == "enum") mode_enum(a);
	else if (mode == "strings") mode_strings(a);
	else if (mode == "codepages") mode_codepages(a);
	else if (mode == "one") {
		std::string s = unhex(a.str("bytes"));
		check_one((unsigned char const *)s.data(), (int)s.size());
	}
	finish(a);
	return O().viol_count ? 1 : 0;
}
