// C07 / C08 monitor: memory cache back ends (thread-shared, process-shared) against an executable
// reference model, the eviction transition relation and the guarded dump hook's index invariants.
#include "common/vh.h"
#include "common/clock_shim.h"
#include "cache_storage.h"
#include "base_cache.h"
#include <booster/intrusive_ptr.h>
#include <algorithm>
#include <list>

using namespace vh;
using cppcms::impl::base_cache;
using cppcms::impl::verif_cache_dump_result;
using cppcms::impl::verif_cache_entry;

struct mentry { std::string value; std::set<std::string> trig; long deadline; uint64_t seq; };
struct model {
	std::map<std::string, mentry> e;
	std::list<std::string> lru;  // front = most recently stored / fetched
	void touch(std::string const &k) { lru.remove(k); lru.push_front(k); }
	void erase(std::string const &k) { e.erase(k); lru.remove(k); }
	unsigned links() const { unsigned n = 0; for (auto const &x : e) n += (unsigned)x.second.trig.size(); return n; }
};

struct op { int kind; std::string key; std::string value; std::set<std::string> trig; long dl; int dt; };  // 0 store 1 fetch 2 rise 3 remove 4 clear 5 stats 6 tick
static std::string op_str(op const &o)
{
	static char const *n[] = { "store", "fetch", "rise", "remove", "clear", "stats", "tick" };
	std::string s = std::string("{\"op\":\"") + n[o.kind] + "\"";
	if (o.kind <= 3) s += ",\"key\":\"" + hex(o.key) + "\"";
	if (o.kind == 0) { s += ",\"len\":" + std::to_string(o.value.size()) + ",\"dl\":" + std::to_string(o.dl) + ",\"trig\":["; bool f = true; for (auto const &t : o.trig) { if (!f) s += ","; f = false; s += "\"" + hex(t) + "\""; } s += "]"; }
	if (o.kind == 6) s += ",\"dt\":" + std::to_string(o.dt);
	return s + "}";
}

struct runner {
	booster::intrusive_ptr<base_cache> c;
	model m;
	unsigned limit;
	bool shared, pressure;
	std::vector<std::string> trace;
	long long shm_baseline;
	uint64_t vcount;
	bool failed;
	runner() : limit(0), shared(false), pressure(false), shm_baseline(-1), vcount(0), failed(false) {}

	void viol(std::string const &key, std::string const &detail) {
		failed = true;
		std::string t = "[";
		size_t from = trace.size() > 60 ? trace.size() - 60 : 0;
		for (size_t i = from; i < trace.size(); i++) { if (i > from) t += ","; t += trace[i]; }
		t += "]";
		O().viol(key, detail + " backend=" + (shared ? "process_shared" : "thread_shared") + " limit=" + std::to_string(limit), "{\"limit\":" + std::to_string(limit) + ",\"shared\":" + (shared ? "true" : "false") + ",\"ops\":" + t + "}");
	}
	bool dump(verif_cache_dump_result &d) {
		if (!cppcms::impl::verif_cache_dump(c.get(), d)) { O().viol("harness:dump-hook-unavailable", ""); failed = true; return false; }
		O().count("dumps");
		if (!d.inconsistency.empty()) viol("cache:index-inconsistent", d.inconsistency);
		return true;
	}
	// full comparison of the physical state with the model
	void compare_state(verif_cache_dump_result const &d, char const *when) {
		if (d.size != m.e.size() || d.lru_order.size() != m.e.size()) { viol("cache:entry-count-differs-from-history", std::string(when) + " real=" + std::to_string(d.size) + " model=" + std::to_string(m.e.size())); return; }
		if (limit && d.size > limit) viol("cache:limit-exceeded", std::to_string(d.size));
		unsigned links = 0;
		for (auto const &e : d.lru_order) {
			auto p = m.e.find(e.key);
			if (p == m.e.end()) { viol("cache:holds-entry-not-in-history", hex(e.key)); return; }
			std::set<std::string> t(e.triggers.begin(), e.triggers.end());
			if (t.size() != e.triggers.size()) viol("cache:duplicate-trigger-link", hex(e.key));
			if (e.value != p->second.value || t != p->second.trig || e.deadline != p->second.deadline) { viol("cache:entry-differs-from-last-store", hex(e.key) + " real=" + e.value.substr(0, 12) + "/dl" + std::to_string(e.deadline) + "/t" + std::to_string(t.size()) + " model=" + p->second.value.substr(0, 12) + "/dl" + std::to_string(p->second.deadline) + "/t" + std::to_string(p->second.trig.size())); return; }
			links += (unsigned)t.size();
		}
		if (d.triggers_count != links) viol("cache:trigger-count-differs-from-history", std::to_string(d.triggers_count) + " vs " + std::to_string(links));
		// LRU order, judged on live entries only
		long now = vclock::now();
		std::vector<std::string> a, b;
		for (auto const &e : d.lru_order) if (e.deadline >= now) a.push_back(e.key);
		for (auto const &k : m.lru) if (m.e[k].deadline >= now) b.push_back(k);
		if (a != b) viol("cache:lru-order-differs-from-history", when);
		unsigned sk = 0, st = 0;
		c->stats(sk, st);
		if (sk != m.e.size() || st != links) viol("cache:stats-differ-from-history", "keys=" + std::to_string(sk) + " triggers=" + std::to_string(st));
	}

	void apply(op const &o) {
		trace.push_back(op_str(o));
		O().count("ops");
		long now = vclock::now();
		switch (o.kind) {
		case 0: do_store(o); break;
		case 1: {
			std::string v = "UNSET"; std::set<std::string> tr; time_t dl = -7; uint64_t gen = 0;
			// which outputs the caller asks for must not matter: a probe (null value pointer) or a value-only fetch is a fetch
			// like any other - it hits or misses the same way and makes the entry the most recently used one
			uint64_t hsh = trace.size() * 0x9E3779B97F4A7C15ull + o.key.size() * 0xBF58476D1CE4E5B9ull + (o.key.empty() ? 0 : (unsigned char)o.key[o.key.size() - 1]) * 0x94D049BB133111EBull;
			unsigned shape = (unsigned)((hsh ^ (hsh >> 29)) >> 7) & 7; // 0..3 full, 4 metadata only, 5 value only, 6 bare probe, 7 value + deadline
			bool want_v = shape <= 3 || shape == 5 || shape == 7, want_t = shape <= 4, want_d = shape <= 4 || shape == 7;
			bool hit = c->fetch(o.key, want_v ? &v : 0, want_t ? &tr : 0, want_d ? &dl : 0, shape <= 3 ? &gen : 0);
			O().count(shape <= 3 ? "fetch_full" : "fetch_partial_outputs");
			auto p = m.e.find(o.key);
			bool want = p != m.e.end() && p->second.deadline >= now;
			if (hit && !want) viol(p == m.e.end() ? "cache:hit-for-removed-or-invalidated-key" : "cache:hit-after-deadline", hex(o.key));
			else if (!hit && want) viol("cache:miss-for-live-entry", hex(o.key));
			else if (hit) {
				O().count("hits");
				if (want_v ? v != p->second.value : v != "UNSET") viol("cache:hit-returns-wrong-value", hex(o.key));
				if (want_t ? tr != p->second.trig : !tr.empty()) viol("cache:hit-returns-wrong-trigger-set", hex(o.key));
				if (want_d ? dl != p->second.deadline : dl != -7) viol("cache:hit-returns-wrong-deadline", hex(o.key));
				m.touch(o.key);
				// the short overload must agree (only after a full fetch, so that a partial one stands alone as the entry's last use)
				if (shape <= 3) { std::string v2; if (!c->fetch(o.key, v2) || v2 != v) viol("cache:fetch-overloads-disagree", hex(o.key)); }
			} else { O().count(p == m.e.end() ? "misses_absent" : "misses_expired"); if (v != "UNSET" || !tr.empty()) viol("cache:miss-modified-outputs", hex(o.key)); }
			break;
		}
		case 2: {
			c->rise(o.key);
			std::vector<std::string> kill;
			for (auto const &x : m.e) if (x.second.trig.count(o.key)) kill.push_back(x.first);
			for (auto const &k : kill) m.erase(k);
			O().count("rise_killed", (long long)kill.size());
			break;
		}
		case 3: c->remove(o.key); m.erase(o.key); break;
		case 4: {
			c->clear(); m.e.clear(); m.lru.clear();
			if (shared) {
				verif_cache_dump_result d;
				if (dump(d)) {
					// the buddy allocator's rounding makes the post-clear figure wobble by a few dozen bytes; a leak grows without bound
					long long slack = std::max<long long>(4096, d.shm_size / 128);
					if (shm_baseline < 0) shm_baseline = d.shm_free;
					else if (d.shm_free < shm_baseline - slack) viol("cache:shared-memory-not-released-after-clear", "free=" + std::to_string(d.shm_free) + " baseline=" + std::to_string(shm_baseline));
					O().count("conservation_checks");
				}
			}
			break;
		}
		case 5: break;
		case 6: vclock::now() += o.dt; break;
		}
		if (failed) return;
		if (o.kind != 0) { verif_cache_dump_result d; if (dump(d)) compare_state(d, "after op"); }
	}

	void do_store(op const &o) {
		long now = vclock::now();
		verif_cache_dump_result before;
		if (shared && !dump(before)) return;
		c->store(o.key, o.value, o.trig, (time_t)o.dl);
		verif_cache_dump_result d;
		if (!dump(d)) return;
		// model: replace same key, then make room
		std::string old_value; bool had_old = false;
		{ auto p = m.e.find(o.key); if (p != m.e.end()) { had_old = true; old_value = p->second.value; } }
		m.erase(o.key);
		std::set<std::string> after_keys;
		for (auto const &e : d.lru_order) after_keys.insert(e.key);
		std::vector<std::string> removed;
		for (auto const &x : m.e) if (!after_keys.count(x.first)) removed.push_back(x.first);
		bool stored = after_keys.count(o.key) != 0;
		if (stored && had_old) for (auto const &e : d.lru_order) if (e.key == o.key && e.value == old_value && e.value != o.value) {
			viol("cache:failed-store-leaves-superseded-value", "store of " + std::to_string(o.value.size()) + " bytes did not take effect and the previous value " + old_value.substr(0, 10) + " is still served");
			return;
		}
		size_t need = (limit && m.e.size() >= limit) ? m.e.size() - limit + 1 : 0;
		bool mem_excuse = false;
		if (shared) {
			// memory pressure may legitimately drop the store, evict more, or clear everything
			bool low = before.shm_max_chunk < before.shm_size / 8;
			bool big = (long long)(o.value.size() + o.key.size() + 512) * 4 > before.shm_max_chunk;
			mem_excuse = low || big;
			if (mem_excuse) O().count("stores_under_memory_pressure");
		}
		if (!stored) {
			// a value whose deadline has already passed can never be served: not keeping it is indistinguishable for clients
			if (!mem_excuse && o.dl >= now) { viol("cache:store-lost", hex(o.key)); return; }
			O().count(o.dl < now && !mem_excuse ? "expired_stores_not_kept" : "stores_dropped_for_memory");
		}
		if (!stored) need = std::min(need, removed.size());   // a dropped store need not have made room
		// entries beyond the count limit may go only for the reasons the implementation itself counts (guarded hook): iterations of
		// check_limits that found shared memory low, or the clear() after an allocation failure. (The state before the store does not
		// tell: the allocator reports the free bytes of its largest non-empty size class, which can *drop* when buddies coalesce.)
		unsigned long mem_ev = shared ? d.memory_evictions - before.memory_evictions : 0;
		bool mem_cleared = shared && d.memory_clears != before.memory_clears;
		if (mem_ev) O().count("evictions_for_low_shared_memory", (long long)mem_ev);
		if (mem_cleared) O().count("clears_after_allocation_failure");
		if (removed.size() != need) {
			if (!(removed.size() > need && (mem_cleared || removed.size() <= need + mem_ev))) { viol(removed.size() > need ? "cache:evicted-more-than-needed" : "cache:limit-exceeded", "removed=" + std::to_string(removed.size()) + " need=" + std::to_string(need) + (shared ? " value=" + std::to_string(o.value.size()) + " triggers=" + std::to_string(o.trig.size()) + " largest-free-chunk-before=" + std::to_string(before.shm_max_chunk) + " of " + std::to_string(before.shm_size) + " memory-evictions=" + std::to_string(mem_ev) : std::string())); return; }
		}
		if (!removed.empty()) {
			// victims: expired ones first (any of them), then the least recently used live entries
			std::set<std::string> expired, rem(removed.begin(), removed.end());
			for (auto const &x : m.e) if (x.second.deadline < now) expired.insert(x.first);
			size_t rem_expired = 0;
			for (auto const &k : removed) if (expired.count(k)) rem_expired++;
			size_t rem_live = removed.size() - rem_expired;
			if (rem_live > 0 && rem_expired < expired.size()) { viol("cache:evicted-live-entry-while-expired-one-remained", ""); return; }
			// the live victims must be exactly the tail of the live LRU order
			std::vector<std::string> live_lru;
			for (auto const &k : m.lru) if (!expired.count(k)) live_lru.push_back(k);
			for (size_t i = 0; i < rem_live; i++) {
				std::string const &victim = live_lru[live_lru.size() - 1 - i];
				if (!rem.count(victim)) { viol("cache:evicted-entry-is-not-least-recently-used", "expected victim " + hex(victim)); return; }
			}
			O().count("evictions", (long long)removed.size());
			O().count("evictions_expired", (long long)rem_expired);
			O().count("evictions_lru", (long long)rem_live);
			for (auto const &k : removed) m.erase(k);
		}
		if (stored) {
			mentry me; me.value = o.value; me.trig = o.trig; me.trig.insert(o.key); me.deadline = o.dl; me.seq = ++vcount;
			m.e[o.key] = me; m.touch(o.key);
		}
		compare_state(d, "after store");
	}
};

static runner *make_runner(bool shared, unsigned limit, size_t shm_bytes)
{
	runner *r = new runner();
	r->shared = shared; r->limit = limit;
	if (shared) r->c = cppcms::impl::process_cache_factory(shm_bytes, limit);
	else r->c = cppcms::impl::thread_cache_factory(limit);
	if (shared) { r->c->clear(); verif_cache_dump_result d; if (r->dump(d)) r->shm_baseline = d.shm_free; }
	O().raw("shm_baseline_free", std::to_string(r->shm_baseline));
	return r;
}

// ---------------------------------------------------------------- exhaustive small alphabet
static std::vector<op> small_alphabet()
{
	std::vector<op> a;
	char const *keys[] = { "a", "b" };
	for (int k = 0; k < 2; k++) for (int t = 0; t < 3; t++) for (int d = 0; d < 2; d++) {
		op o; o.kind = 0; o.key = keys[k]; o.dl = d ? 4 : 1;  // relative to the clock at execution
		if (t == 1) o.trig.insert("t"); if (t == 2) o.trig.insert(keys[1 - k]);
		a.push_back(o);
	}
	for (int k = 0; k < 2; k++) { op o; o.kind = 1; o.key = keys[k]; a.push_back(o); }
	char const *tr[] = { "a", "b", "t" };
	for (int k = 0; k < 3; k++) { op o; o.kind = 2; o.key = tr[k]; a.push_back(o); }
	for (int k = 0; k < 2; k++) { op o; o.kind = 3; o.key = keys[k]; a.push_back(o); }
	{ op o; o.kind = 4; a.push_back(o); }
	{ op o; o.kind = 6; o.dt = 2; a.push_back(o); }
	return a;
}
static void run_sequence(bool shared, unsigned limit, std::vector<op> const &alpha, std::vector<int> const &seq)
{
	static runner *sh = 0;      // the shared segment is a process-wide singleton: reuse one cache, clear between sequences
	runner *r;
	if (shared) { if (!sh) sh = make_runner(true, limit, 1 << 20); r = sh; r->c->clear(); r->m = model(); r->trace.clear(); r->failed = false; }
	else r = make_runner(false, limit, 0);
	vclock::now() = 1500000000L;
	uint64_t val = 0;
	uint64_t h = 0;
	for (int idx : seq) {
		op o = alpha[idx];
		if (o.kind == 0) { o.value = "v" + std::to_string(++val); o.dl += vclock::now(); }
		r->apply(o);
		if (r->failed) break;
		h = mix(h, idx + 1);
	}
	// distinct states visited
	{ uint64_t sh2 = 0; for (auto const &x : r->m.e) { sh2 = mix(sh2, fnv(x.first)); for (auto const &t : x.second.trig) sh2 = mix(sh2, fnv(t)); sh2 = mix(sh2, (uint64_t)(x.second.deadline - vclock::now() + 100)); } for (auto const &k : r->m.lru) sh2 = mix(sh2, fnv(k) * 3); O().seen("states", sh2); }
	O().count("sequences");
	if (!shared) delete r;
}
static void mode_exhaust(args const &a)
{
	int depth = (int)a.num("depth", 4);
	unsigned limit = (unsigned)a.num("limit", 0);
	bool shared = a.has("shared");
	int part = (int)a.num("part", 0), parts = (int)a.num("parts", 1);
	std::vector<op> alpha = small_alphabet();
	int n = (int)alpha.size();
	std::vector<int> seq(depth, 0);
	long long total = 1; for (int i = 0; i < depth; i++) total *= n;
	for (long long x = part; x < total; x += parts) {
		long long y = x; for (int i = 0; i < depth; i++) { seq[i] = (int)(y % n); y /= n; }
		run_sequence(shared, limit, alpha, seq);
		if (O().viol_count > 5) break;
	}
	O().sample("{\"mode\":\"exhaust\",\"depth\":" + std::to_string(depth) + ",\"alphabet\":" + std::to_string(n) + ",\"limit\":" + std::to_string(limit) + ",\"shared\":" + (shared ? "true" : "false") + "}");
}

// ---------------------------------------------------------------- long random histories
static void mode_random(args const &a)
{
	rng r(a.num("seed", 1));
	long long nops = a.num("ops", 20000);
	unsigned limit = (unsigned)a.num("limit", 0);
	bool shared = a.has("shared");
	bool pressure = a.has("pressure");
	size_t shm = (size_t)a.num("shm", 1 << 20);
	int nkeys = (int)a.num("keys", limit ? (int)limit * 2 + 2 : 40);
	if (a.has("late")) { vclock::now() = 2200000000L; O().count("histories_after_2038"); }     // deadlines that do not fit 31 bits
	int ntrig = (int)a.num("triggers", 6);
	runner *rn = make_runner(shared, limit, shm);
	rn->pressure = pressure;
	std::vector<std::string> keys, trigs;
	for (int i = 0; i < nkeys; i++) keys.push_back(i % 7 == 3 ? std::string("k\0bin", 5) + std::to_string(i) : "key" + std::to_string(i));
	for (int i = 0; i < ntrig; i++) trigs.push_back("trig" + std::to_string(i));
	for (int i = 0; i < 3 && i < nkeys; i++) trigs.push_back(keys[i]);   // keys that are also trigger names
	uint64_t val = 0;
	for (long long i = 0; i < nops && !rn->failed; i++) {
		op o; int k = r.below(100);
		if (k < 40) {
			o.kind = 0; o.key = r.pick(keys);
			size_t len = pressure ? (r.chance(1, 10) ? r.below((uint32_t)shm / 3) : r.below(30000)) : (r.chance(1, 50) ? r.below(70000) : r.below(40));
			o.value = "v" + std::to_string(++val) + ":" + std::string(len, (char)('a' + val % 26));
			if (r.chance(1, 12)) { o.value.clear(); O().count("stores_of_empty_value"); }     // truly empty values too (the model needs no unique values)
			int nt = r.chance(1, 20) ? r.range(5, 30) : r.below(4);
			for (int t = 0; t < nt; t++) o.trig.insert(r.chance(1, 15) ? "t" + std::to_string(r.below(1000)) : r.pick(trigs));
			if (r.chance(1, 8)) o.trig.insert(o.key);
			o.dl = vclock::now() + (r.chance(1, 8) ? -r.range(0, 3) : r.range(0, 12));
		}
		else if (k < 72) { o.kind = 1; o.key = r.chance(1, 20) ? "nokey" : r.pick(keys); }
		else if (k < 82) { o.kind = 2; o.key = r.chance(1, 10) ? "notrig" : r.pick(trigs); }
		else if (k < 88) { o.kind = 3; o.key = r.pick(keys); }
		else if (k < 89 || (pressure && k < 92)) { o.kind = 4; }
		else if (k < 93) { o.kind = 5; }
		else { o.kind = 6; o.dt = r.chance(1, 4) ? r.range(3, 15) : r.range(0, 2); }
		rn->apply(o);
		if (i < 3) O().sample(op_str(o));
		if ((i & 15) == 0) { uint64_t sh2 = 0; for (auto const &x : rn->m.e) sh2 = mix(sh2, fnv(x.first) ^ (uint64_t)x.second.deadline); O().seen("states", mix(sh2, rn->m.e.size())); }
	}
	// conservation at the end of a shared run
	if (shared && !rn->failed) { op o; o.kind = 4; rn->apply(o); }
	O().count("histories");
	if (!shared) { rn->c = 0; delete rn; }
}

// ---------------------------------------------------------------- cache_interface with nested trigger recorders
#include <cppcms/service.h>
#include <cppcms/cache_interface.h>
#include <cppcms/cache_pool.h>
#include <cppcms/json.h>
struct iface_model { std::map<std::string, std::set<std::string> > frames; };   // key -> full trigger set (incl. key)
static int g_built = 0;
static void build_frame(rng &r, cppcms::cache_interface &ci, iface_model &m, std::string const &key, int depth, std::set<std::string> &inherited_out, std::string &log)
{
	// the documented pattern: record every trigger touched while the frame is built, store the frame with them
	cppcms::triggers_recorder rec(ci);
	std::set<std::string> expect;
	int nchild = depth >= 3 ? 0 : r.below(3);
	for (int i = 0; i < nchild; i++) {
		std::string child = "f" + std::to_string(depth + 1) + "_" + std::to_string(r.below(3));
		std::string text;
		bool hit = ci.fetch_frame(child, text);
		bool mhit = m.frames.count(child) != 0;
		if (hit != mhit) { O().viol(hit ? "cache:interface-hit-for-invalidated-frame" : "cache:interface-miss-for-live-frame", child + " " + log); return; }
		if (hit) { expect.insert(m.frames[child].begin(), m.frames[child].end()); log += "fetch(" + child + ");"; }
		else { std::set<std::string> sub; log += "build(" + child + "){"; build_frame(r, ci, m, child, depth + 1, sub, log); log += "};"; expect.insert(sub.begin(), sub.end()); }
	}
	int nexp = r.below(3);
	for (int i = 0; i < nexp; i++) { std::string t = "tr" + std::to_string(r.below(5)); ci.add_trigger(t); expect.insert(t); log += "add_trigger(" + t + ");"; }
	std::set<std::string> direct;
	if (r.chance(1, 3)) { direct.insert("d" + std::to_string(r.below(3))); }
	std::set<std::string> recd = rec.detach();
	std::set<std::string> all = recd; all.insert(direct.begin(), direct.end());
	ci.store_frame(key, "content-of-" + key + "-" + std::to_string(++g_built), all, r.chance(1, 2) ? -1 : 100);
	log += "store(" + key + ");";
	expect.insert(direct.begin(), direct.end());
	expect.insert(key);
	if (!std::includes(all.begin(), all.end(), expect.begin(), expect.end()) && !(all.size() + 1 == expect.size())) {
		// the recorder must have seen every trigger of every frame fetched or built inside
		std::set<std::string> withkey = all; withkey.insert(key);
		if (!std::includes(withkey.begin(), withkey.end(), expect.begin(), expect.end())) O().viol("cache:recorder-missed-inherited-trigger", key + " " + log);
	}
	m.frames[key] = expect;
	inherited_out = expect;
	O().count("frames_built");
}
static void mode_iface(args const &a)
{
	rng r(a.num("seed", 1));
	long long rounds = a.num("ops", 2000);
	cppcms::json::value cfg;
	cfg["cache"]["backend"] = "thread_shared";
	cfg["cache"]["limit"] = 0;
	cppcms::service srv(cfg);
	booster::intrusive_ptr<base_cache> backend = srv.cache_pool().get();
	if (!backend) { O().viol("harness:no-cache-backend", ""); return; }
	iface_model m;
	for (long long i = 0; i < rounds; i++) {
		cppcms::cache_interface ci(srv);
		std::string log;
		int k = r.below(10);
		if (k < 5) {
			std::string key = "f0_" + std::to_string(r.below(3));
			std::string text; bool hit = ci.fetch_frame(key, text); bool mhit = m.frames.count(key) != 0;
			if (hit != mhit) O().viol(hit ? "cache:interface-hit-for-invalidated-frame" : "cache:interface-miss-for-live-frame", key);
			if (!hit) { std::set<std::string> sub; build_frame(r, ci, m, key, 0, sub, log); }
		} else if (k < 8) {
			std::string t;
			switch (r.below(4)) { case 0: t = "tr" + std::to_string(r.below(5)); break; case 1: t = "d" + std::to_string(r.below(3)); break; default: t = "f" + std::to_string(r.below(4)) + "_" + std::to_string(r.below(3)); }
			ci.rise(t);
			std::vector<std::string> kill;
			for (auto const &f : m.frames) if (f.second.count(t)) kill.push_back(f.first);
			for (auto const &kk : kill) m.frames.erase(kk);
			O().count("rise_killed", (long long)kill.size());
		} else if (k < 9) { ci.clear(); m.frames.clear(); }
		else { unsigned kk = 0, tt = 0; ci.stats(kk, tt); if (kk != m.frames.size()) O().viol("cache:interface-stats-differ", std::to_string(kk) + " vs " + std::to_string(m.frames.size())); }
		// every frame in the back end carries exactly the model's trigger set
		for (auto const &f : m.frames) {
			std::string v; std::set<std::string> tr;
			if (!backend->fetch(f.first, &v, &tr)) { O().viol("cache:interface-miss-for-live-frame", f.first + " " + log); break; }
			if (!std::includes(tr.begin(), tr.end(), f.second.begin(), f.second.end())) { O().viol("cache:stored-frame-lacks-inherited-trigger", f.first + " " + log); break; }
		}
		O().count("ops");
		O().seen("states", fnv(log));
		if (i < 2 && !log.empty()) O().sample(jstr(log));
		if (O().viol_count > 3) break;
	}
	O().count("histories");
}

// a LARGE entry limit on a small shared segment: the index tables themselves take a good part of the memory, so clear()
// (which re-creates them) and the out-of-memory fallback of store() can fail half way. Whatever they report, the cache must
// stay a cache: nothing cleared may be served, the counts must agree with the dump, and later operations must work.
static void mode_bigtable(args const &a)
{
	rng r(a.num("seed", 1));
	static unsigned const limits[] = { 1024, 2048, 4096, 8192, 20000 };
	static size_t const mems[] = { 512 << 10, 1 << 20 };
	for (unsigned limit : limits) for (size_t mem : mems) {
		booster::intrusive_ptr<base_cache> c;
		try { c = cppcms::impl::process_cache_factory(mem, limit); } catch (std::exception const &e) { O().count("bigtable_configs_refused"); continue; }
		std::string rp = "{\"mode\":\"bigtable\",\"memory\":" + std::to_string(mem) + ",\"limit\":" + std::to_string(limit) + "}";
		for (int round = 0; round < 3; round++) {
			int n = r.range(500, 4000);
			long stores_threw = 0;
			for (int i = 0; i < n; i++) {
				std::set<std::string> tr; for (int t = 0; t < 5; t++) tr.insert("t" + std::to_string(r.below(50)));
				try { c->store("key" + std::to_string(i), "v" + std::to_string(i) + std::string(r.below(40), 'x'), tr, (time_t)(vclock::now() + 1000)); } catch (std::bad_alloc const &) { stores_threw++; }
			}
			bool threw = false;
			try { c->clear(); } catch (std::bad_alloc const &) { threw = true; }
			O().count(threw ? "bigtable_clear_threw" : "bigtable_clear_ok"); O().count("bigtable_rounds"); O().count("ops", n + 1);
			if (stores_threw) O().count("bigtable_stores_threw", stores_threw);
			verif_cache_dump_result d;
			if (!cppcms::impl::verif_cache_dump(c.get(), d)) { O().viol("harness:dump-hook-unavailable", ""); return; }
			unsigned sk = 0, st = 0; c->stats(sk, st);
			if (!d.inconsistency.empty()) { O().viol("cache:index-inconsistent-after-clear", d.inconsistency + (threw ? " (clear() threw bad_alloc)" : ""), rp); break; }
			if (!d.lru_order.empty() || sk != 0 || st != 0) { O().viol("cache:clear-left-entries-or-counts", "entries=" + std::to_string(d.lru_order.size()) + " stats keys=" + std::to_string(sk) + " triggers=" + std::to_string(st) + (threw ? " (clear() threw bad_alloc)" : ""), rp); break; }
			std::string v;
			for (int i = 0; i < 20; i++) if (c->fetch("key" + std::to_string(r.below((uint32_t)n)), v)) { O().viol("cache:hit-for-removed-or-invalidated-key", "after clear()", rp); break; }
			// the cache keeps working: raise every trigger, store and fetch again
			for (int t = 0; t < 50; t++) c->rise("t" + std::to_string(t));
			std::set<std::string> tr; tr.insert("t1");
			bool again = true;
			try { c->store("after", "value", tr, (time_t)(vclock::now() + 1000)); } catch (std::bad_alloc const &) { again = false; }
			if (again && (!c->fetch("after", v) || v != "value")) O().viol("cache:store-lost", "first store after clear()", rp);
			try { c->clear(); } catch (std::bad_alloc const &) {}
		}
		O().seen("states", mix(limit, mem));
	}
}

int main(int argc, char **argv)
{
	args a(argc, argv);
	std::string mode = a.str("mode", "random");
	if (mode == "bigtable") mode_bigtable(a);
	else if (mode == "exhaust") mode_exhaust(a);
	else if (mode == "iface") mode_iface(a);
	else mode_random(a);
	O().count("clock_reads", vclock::calls());
	finish(a);
	return O().viol_count ? 1 : 0;
}
