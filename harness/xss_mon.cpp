// C04 monitor: cppcms::xss filter/validate against (O1) validate∘filter, (O2) identity on valid input,
// (O3) an independent browser-lenient tokenizer judged against the harness's own description of the rules,
// (O4) encoding well-formedness of accepted input.
#include "common/vh.h"
#include "common/utf_ref.h"
#include <cppcms/xss.h>
#include <cppcms/json.h>
#include <booster/locale/encoding.h>
#include <memory>

using namespace vh;
namespace xss = cppcms::xss;
namespace json = cppcms::json;

// ------------------------------------------------------------------ abstract rule description
enum pkind { P_BOOL, P_INT, P_REGEX, P_URI, P_REL, P_ABS };
struct prop { pkind kind; int regex; std::vector<std::string> schemes; };
struct spec {
	bool xhtml, comments, numeric;
	std::string encoding;
	std::set<std::string> entities;                 // besides lt gt amp quot
	std::map<std::string, int> tags;                // 1 opening_and_closing 2 stand_alone 3 any
	std::map<std::pair<std::string, std::string>, prop> props;
	bool ascii_compatible;
	uint64_t id;
};
static char const *TAGS[] = { "b", "i", "a", "img", "br", "hr", "p", "input", "div", "span", "strong", "em", "ul", "li" };
static char const *PROPS[] = { "href", "src", "title", "width", "alt", "checked", "disabled", "class", "align", "id" };
static char const *REGEXES[] = { "[a-z]+", "[0-9]{1,3}%?", "(left|right|center)", "[a-zA-Z0-9_ -]*" };
static bool my_regex(int idx, std::string const &v)
{
	switch (idx) {
	case 0: if (v.empty()) return false; for (char c : v) if (c < 'a' || c > 'z') return false; return true;
	case 1: { size_t n = 0; while (n < v.size() && v[n] >= '0' && v[n] <= '9') n++; if (n < 1 || n > 3) return false; return n == v.size() || (n + 1 == v.size() && v[n] == '%'); }
	case 2: return v == "left" || v == "right" || v == "center";
	default: for (unsigned char c : v) if (!(isalnum(c) || c == '_' || c == ' ' || c == '-')) return false; return true;
	}
}
static std::string lower(std::string s) { for (auto &c : s) if (c >= 'A' && c <= 'Z') c = (char)(c + 32); return s; }

static spec make_spec(uint64_t seed)
{
	rng r(seed);
	spec s;
	s.id = seed;
	s.xhtml = r.chance(1, 2); s.comments = r.chance(1, 2); s.numeric = r.chance(1, 2);
	static char const *encs[] = { "", "", "UTF-8", "UTF-8", "ISO-8859-1", "ISO-8859-8", "windows-1252", "UTF-16LE" };
	s.encoding = encs[r.below(8)];
	s.ascii_compatible = s.encoding != "UTF-16LE";
	if (r.chance(1, 2)) s.entities.insert("nbsp");
	if (r.chance(1, 3)) s.entities.insert("copy");
	int nt = r.range(1, 9);
	for (int i = 0; i < nt; i++) { std::string t = TAGS[r.below(14)]; if (!s.xhtml && r.chance(1, 6)) for (auto &c : t) c = (char)toupper(c); s.tags[t] = r.range(1, 3); }
	if (!s.xhtml) { std::map<std::string, int> uniq; std::set<std::string> seen; for (auto &t : s.tags) if (seen.insert(lower(t.first)).second) uniq[t.first] = t.second; s.tags = uniq; }
	int np = r.range(0, 10);
	for (int i = 0; i < np; i++) {
		auto it = s.tags.begin(); std::advance(it, r.below((uint32_t)s.tags.size()));
		std::string pn = PROPS[r.below(10)];
		prop p; p.kind = (pkind)r.below(6); p.regex = r.below(4);
		if (p.kind == P_URI || p.kind == P_ABS) {
			switch (r.below(3)) { case 0: p.schemes = { "http", "https" }; break; case 1: p.schemes = { "http", "https", "ftp", "mailto", "news", "nntp" }; break; default: p.schemes = { "ftp" }; }
		}
		bool dup = false;
		if (!s.xhtml) for (auto &e : s.props) if (lower(e.first.first) == lower(it->first) && lower(e.first.second) == lower(pn)) dup = true;
		if (!dup) s.props[std::make_pair(it->first, pn)] = p;
	}
	return s;
}
static std::unique_ptr<xss::rules> build_rules(spec const &s, std::string &json_text)
{
	json::value v;
	v["xhtml"] = s.xhtml; v["comments"] = s.comments; v["numeric_entities"] = s.numeric;
	if (!s.encoding.empty()) v["encoding"] = s.encoding;
	v["entities"] = json::array();
	for (auto const &e : s.entities) v["entities"].array().push_back(e);
	static char const *tn[] = { "", "opening_and_closing", "stand_alone", "any_tag" };
	for (int k = 1; k <= 3; k++) v["tags"][tn[k]] = json::array();
	for (auto const &t : s.tags) v["tags"][tn[t.second]].array().push_back(t.first);
	v["attributes"] = json::array();
	for (auto const &p : s.props) {
		json::value a;
		a["tags"][0] = p.first.first; a["attributes"][0] = p.first.second;
		switch (p.second.kind) {
		case P_BOOL: a["type"] = "boolean"; break;
		case P_INT: a["type"] = "integer"; break;
		case P_REGEX: a["type"] = "regex"; a["expression"] = REGEXES[p.second.regex]; break;
		case P_REL: a["type"] = "relative_uri"; break;
		default: {
			a["type"] = p.second.kind == P_URI ? "uri" : "absolute_uri";
			std::string sc = "("; for (size_t i = 0; i < p.second.schemes.size(); i++) { if (i) sc += "|"; sc += p.second.schemes[i]; } sc += ")";
			a["scheme"] = sc;
		}
		}
		v["attributes"].array().push_back(a);
	}
	json_text = v.save();
	return std::unique_ptr<xss::rules>(new xss::rules(v));
}

// ------------------------------------------------------------------ O3: lenient tokenizer over the filter output
struct o3 {
	spec const &s; std::string const &f; std::string why; std::string shape;
	o3(spec const &sp, std::string const &out) : s(sp), f(out) {}
	static bool ws(unsigned char c) { return c == ' ' || c == '\t' || c == '\n' || c == '\r' || c == '\f'; }
	static bool alpha(unsigned char c) { return (c >= 'a' && c <= 'z') || (c >= 'A' && c <= 'Z'); }
	std::string cls;
	bool fail(std::string const &c, std::string const &w, size_t at) { cls = c; why = w + " at offset " + std::to_string(at); return false; }
	int tag_type(std::string const &name) const {
		if (s.xhtml) { auto p = s.tags.find(name); return p == s.tags.end() ? 0 : p->second; }
		for (auto const &t : s.tags) if (lower(t.first) == lower(name)) return t.second;
		return 0;
	}
	prop const *find_prop(std::string const &tag, std::string const &pn) const {
		for (auto const &p : s.props) {
			if (s.xhtml ? (p.first.first == tag && p.first.second == pn) : (lower(p.first.first) == lower(tag) && lower(p.first.second) == lower(pn))) return &p.second;
		}
		return 0;
	}
	static std::string decode_entities(std::string const &v) {
		std::string o;
		for (size_t i = 0; i < v.size();) {
			if (v[i] != '&') { o += v[i++]; continue; }
			size_t j = i + 1; std::string name;
			while (j < v.size() && (j - i < 12 || name[0] == '#') && (isalnum((unsigned char)v[j]) || v[j] == '#')) name += v[j++];
			bool semi = j < v.size() && v[j] == ';';
			long cp = -1;
			if (name == "amp") cp = '&'; else if (name == "lt") cp = '<'; else if (name == "gt") cp = '>'; else if (name == "quot") cp = '"'; else if (name == "apos") cp = '\'';
			else if (name.size() > 1 && name[0] == '#') { cp = (name[1] == 'x' || name[1] == 'X') ? strtol(name.c_str() + 2, 0, 16) : strtol(name.c_str() + 1, 0, 10); if (cp > 0x10FFFF) cp = 0xFFFD; }
			if (cp < 0) { o += v[i++]; continue; }
			if (cp < 0x80) o += (char)cp; else o += vref::utf8_enc((uint32_t)cp);
			i = j + (semi ? 1 : 0);
		}
		return o;
	}
	// what a browser would take as the scheme of a URL attribute; "" = relative reference
	static bool url_scheme(std::string const &raw, std::string &scheme) {
		std::string v = decode_entities(raw), t;
		size_t b = 0, e = v.size();
		while (b < e && (unsigned char)v[b] <= 0x20) b++;
		while (e > b && (unsigned char)v[e - 1] <= 0x20) e--;
		for (size_t i = b; i < e; i++) if (v[i] != '\t' && v[i] != '\n' && v[i] != '\r') t += v[i];
		size_t k = t.find_first_of(":/?#");
		scheme.clear();
		if (k == std::string::npos || t[k] != ':') return true;
		std::string sc = t.substr(0, k);
		if (sc.empty() || !alpha(sc[0])) return true;  // not a scheme: relative reference in a browser
		for (unsigned char c : sc) if (!(isalnum(c) || c == '+' || c == '-' || c == '.')) return true;
		scheme = lower(sc);
		return true;
	}
	bool check_value(std::string const &tag, std::string const &pn, bool has_value, std::string const &val, size_t at) {
		prop const *p = find_prop(tag, pn);
		if (!p) return fail("attribute-not-white-listed", "attribute '" + pn + "' not white-listed for <" + tag + ">", at);
		switch (p->kind) {
		case P_BOOL:
			if (s.xhtml) { if (!has_value || val != pn) return fail("boolean-attribute-form", "xhtml boolean attribute '" + pn + "' must equal its name", at); }
			else if (has_value) return fail("boolean-attribute-form", "html boolean attribute '" + pn + "' has a value", at);
			return true;
		case P_INT: { if (!has_value) return fail("integer-attribute", "integer attribute without value", at); size_t i = 0; if (i < val.size() && val[i] == '-') i++; if (i == val.size()) return fail("integer-attribute", "integer attribute '" + pn + "' is not an integer", at); for (; i < val.size(); i++) if (val[i] < '0' || val[i] > '9') return fail("integer-attribute", "integer attribute '" + pn + "' is not an integer", at); return true; }
		case P_REGEX: if (!has_value || !my_regex(p->regex, val)) return fail("regex-attribute", "attribute '" + pn + "' value does not match its pattern " + REGEXES[p->regex], at); return true;
		default: {
			if (!has_value) return fail("uri-attribute-without-value", "uri attribute without value", at);
			std::string sc; url_scheme(val, sc);
			if (sc.empty()) { if (p->kind == P_ABS) return fail("absolute-uri-holds-relative-reference", "absolute_uri attribute '" + pn + "' holds a relative reference: " + val, at); return true; }
			if (p->kind == P_REL) return fail("relative-uri-holds-scheme", "relative_uri attribute '" + pn + "' holds scheme " + sc, at);
			for (auto const &a : p->schemes) if (a == sc) return true;
			return fail("uri-scheme-not-white-listed", "uri attribute '" + pn + "' uses scheme '" + sc + "' that is not white-listed", at);
		}
		}
	}
	bool run() {
		size_t n = f.size(), i = 0;
		while (i < n) {
			unsigned char c = f[i];
			if (c == '>') return fail("bare-gt", "bare '>' in text", i);
			if (c == '&') {
				size_t j = i + 1; std::string name;
				// (a numeric reference may carry any number of leading zeros: no length cap for those)
				while (j < n && (j - i < 40 || (name.size() > 0 && name[0] == '#')) && f[j] != ';' && f[j] != '&' && f[j] != '<' && !ws(f[j])) name += f[j++];
				if (j >= n || f[j] != ';') return fail("bare-amp", "bare '&'", i);
				if (!name.empty() && name[0] == '#') {
					if (!s.numeric) return fail("numeric-entity", "numeric entity although not allowed", i);
					bool hexa = name.size() > 1 && (name[1] == 'x' || name[1] == 'X');
					std::string d = name.substr(hexa ? 2 : 1);
					if (d.empty()) return fail("numeric-entity", "malformed numeric entity", i);
					for (unsigned char ch : d) if (!(hexa ? isxdigit(ch) : isdigit(ch))) return fail("numeric-entity", "malformed numeric entity", i);
					// a numeric character reference must denote a character: a Unicode scalar value (no surrogate half, high or low,
					// nothing above U+10FFFF) that is not a C0 control other than TAB/LF/CR
					{ std::string sig = d; while (sig.size() > 1 && sig[0] == '0') sig.erase(0, 1);      // leading zeros do not change the number
					  unsigned long cp = sig.size() > 8 ? 0xFFFFFFFFul : strtoul(sig.c_str(), 0, hexa ? 16 : 10);
					  if (cp > 0x10FFFF || (cp >= 0xD800 && cp <= 0xDFFF) || (cp < 0x20 && cp != 9 && cp != 10 && cp != 13)) return fail("numeric-entity", "numeric entity &#" + name.substr(1) + "; does not denote a character", i); }
					shape += 'N';
				} else {
					bool okn = name == "lt" || name == "gt" || name == "amp" || name == "quot" || s.entities.count(name);
					if (!okn) return fail("entity-not-white-listed", "entity &" + name + "; not white-listed", i);
					shape += 'E';
				}
				i = j + 1; continue;
			}
			if (c != '<') { i++; if (shape.empty() || shape[shape.size() - 1] != 't') shape += 't'; continue; }
			if (f.compare(i, 4, "<!--") == 0) {
				if (!s.comments) return fail("comment", "comment although not allowed", i);
				size_t e = 0, body_end;
				if (f.compare(i + 4, 1, ">") == 0) { e = i + 5; body_end = i + 4; } else if (f.compare(i + 4, 2, "->") == 0) { e = i + 6; body_end = i + 4; }
				else { size_t a = f.find("-->", i + 4), b = f.find("--!>", i + 4); if (a == std::string::npos && b == std::string::npos) return fail("comment", "unterminated comment swallows the rest", i); bool use_a = (b == std::string::npos || (a != std::string::npos && a < b)); e = use_a ? a + 3 : b + 4; body_end = use_a ? a : b; }
				// conditional-comment look-alikes: "[if" and a '>' inside the comment text (the terminator's own '>' does not count)
				std::string body = f.substr(i + 4, body_end - i - 4);
				if (body.find("[if") != std::string::npos && body.find('>') != std::string::npos) return fail("comment", "conditional comment", i);
				shape += 'C'; i = e; continue;
			}
			if (i + 1 >= n) return fail("bare-lt", "bare '<' at end", i);
			unsigned char d = f[i + 1];
			bool closing = false; size_t j = i + 1;
			if (d == '/') { closing = true; j++; if (j >= n || !alpha(f[j])) return fail("bogus-markup", "'</' not followed by a tag name (bogus comment)", i); }
			else if (d == '!' || d == '?') return fail("bogus-markup", "markup declaration / processing instruction", i);
			else if (!alpha(d)) return fail("bare-lt", "bare '<' in text", i);
			std::string name;
			while (j < n && !ws(f[j]) && f[j] != '/' && f[j] != '>') name += f[j++];
			int tt = tag_type(name);
			if (!tt) return fail("tag-not-white-listed", "tag <" + name + "> not white-listed", i);
			// attributes
			for (;;) {
				while (j < n && (ws(f[j]) || f[j] == '/')) j++;
				if (j >= n) return fail("unterminated-tag", "unterminated tag <" + name, i);
				if (f[j] == '>') { j++; break; }
				std::string an; size_t at = j;
				while (j < n && !ws(f[j]) && f[j] != '/' && f[j] != '>' && f[j] != '=') an += f[j++];
				while (j < n && ws(f[j])) j++;
				bool has_value = false; std::string val;
				if (j < n && f[j] == '=') {
					j++; while (j < n && ws(f[j])) j++;
					has_value = true;
					if (j < n && (f[j] == '"' || f[j] == '\'')) { char q = f[j++]; size_t e = f.find(q, j); if (e == std::string::npos) return fail("unterminated-tag", "unterminated attribute value", at); val = f.substr(j, e - j); j = e + 1; }
					else { while (j < n && !ws(f[j]) && f[j] != '>') val += f[j++]; }
				}
				if (closing) return fail("attribute-not-white-listed", "attribute on a closing tag", at);
				if (an.empty()) return fail("attribute-not-white-listed", "empty attribute name", at);
				if (!check_value(name, an, has_value, val, at)) return false;
				shape += 'a';
			}
			shape += closing ? 'c' : 'o';
			i = j;
		}
		return true;
	}
};

// ------------------------------------------------------------------ O4: encoding well-formedness
static bool utf16le_wellformed(std::string const &s)
{
	if (s.size() % 2) return false;
	for (size_t i = 0; i < s.size(); i += 2) {
		unsigned u = (unsigned char)s[i] | ((unsigned char)s[i + 1] << 8);
		if (u >= 0xD800 && u <= 0xDBFF) { if (i + 3 >= s.size()) return false; unsigned v = (unsigned char)s[i + 2] | ((unsigned char)s[i + 3] << 8); if (v < 0xDC00 || v > 0xDFFF) return false; i += 2; }
		else if (u >= 0xDC00 && u <= 0xDFFF) return false;
	}
	return true;
}

// ------------------------------------------------------------------ the check
static void check(spec const &s, xss::rules const &R, std::string const &rules_json, std::string const &x)
{
	std::string rp = "{\"rules_seed\":" + std::to_string(s.id) + ",\"input\":\"" + hex(x) + "\",\"rules\":" + jstr(rules_json) + "}";
	char const *b = x.data(), *e = x.data() + x.size();
	bool valid = xss::validate(b, e, R);
	O().count("pairs");
	if (valid) {
		O().count("inputs_valid");
		if (s.encoding == "UTF-8" && !vref::utf8_valid(x)) O().viol("xss:validate-accepts-ill-formed-utf8", hex(x), rp);
		if (s.encoding == "UTF-16LE" && !utf16le_wellformed(x)) O().viol("xss:validate-accepts-ill-formed-utf16", hex(x), rp);
	}
	for (int m = 0; m < 2; m++) {
		xss::filtering_method_type method = m ? xss::escape_invalid : xss::remove_invalid;
		for (int rep = 0; rep < 2; rep++) {
			char repl = rep ? '?' : 0;
			if (rep && (s.encoding.empty() || !s.ascii_compatible)) continue;
			std::string f = xss::filter(x, R, method, repl);
			std::string f2 = xss::filter(b, e, R, method, repl);
			std::string out = "SENTINEL";
			bool r3 = xss::validate_and_filter_if_invalid(b, e, R, out, method, repl);
			std::string tag = std::string(m ? ":escape" : ":remove");
			if (f2 != f) O().viol("xss:filter-overloads-disagree" + tag, hex(x), rp);
			if (r3 != valid) O().viol("xss:validate-and-filter-return-differs-from-validate" + tag, hex(x), rp);
			if (valid) {
				if (f != x) O().viol("xss:valid-input-changed" + tag, "out=" + hex(f), rp);
				if (out != "SENTINEL") O().viol("xss:valid-input-output-touched" + tag, hex(x), rp);
			} else {
				if (out != f && !(out == "SENTINEL" && f.empty())) O().viol("xss:filter-vs-validate_and_filter-output" + tag, hex(x), rp);
				if (f != x) O().count("inputs_changed");
			}
			// O1 stability
			if (!xss::validate(f.data(), f.data() + f.size(), R)) O().viol("xss:filter-output-does-not-validate" + tag, "out=" + hex(f), rp);
			else if (xss::filter(f, R, method, repl) != f) O().viol("xss:filter-not-idempotent" + tag, "out=" + hex(f), rp);
			// O3 white-list
			if (s.ascii_compatible) {
				o3 t(s, f);
				O().count("o3_runs");
				if (!t.run()) O().viol("xss:output-outside-white-list:" + t.cls + tag, t.why + " | out=" + f.substr(0, 400), rp);
				else O().seen("token_shapes", fnv(t.shape));
				if (s.encoding == "UTF-8" && !vref::utf8_valid(f)) O().viol("xss:output-ill-formed-utf8" + tag, hex(f), rp);
			}
		}
	}
}

// ------------------------------------------------------------------ input generator
static std::string gen_uri(rng &r)
{
	static char const *sch[] = { "http", "https", "ftp", "mailto", "javascript", "JAVASCRIPT", "vbscript", "data", "news", "HTTP", "jav&#x09;ascript", "java\tscript", " javascript", "&#106;avascript", "livescript", "x-y.z+1" };
	static char const *rest[] = { "//example.com/a/b?x=1&amp;y=2#f", "alert(1)", "//h:80/", "a@b.c", "/p/q", "x", "", "//[::1]/", "//u:p@host/%41%zz", "text/html,<b>", "//a.b/c?d=e&f=g" };
	static char const *rel[] = { "/a/b", "../x?y=1", "a/b:c", "#frag", "?q=1", "//host/p", "http/x", "https", "javascript/x", "./a:b", "a%20b", "&amp;x", "a b", "1:2", ":x", "" };
	std::string u;
	if (r.chance(1, 2)) { u = sch[r.below(16)]; u += r.chance(1, 10) ? "&#58;" : (r.chance(1, 12) ? " :" : ":"); u += rest[r.below(11)]; }
	else u = rel[r.below(16)];
	return u;
}
static std::string gen_value(rng &r)
{
	switch (r.below(8)) {
	case 0: return std::to_string(r.range(-500, 500));
	case 1: case 2: return gen_uri(r);
	case 3: { static char const *w[] = { "left", "right", "center", "abc", "a b-c_d", "50%", "100", "x\"y", "x'y", "a<b", "a>b", "a&b", "a&amp;b", "&quot;", "&#39;", "&#x27;onload=&#x27;", "checked", "disabled", "" }; return w[r.below(19)]; }
	case 4: return std::string(r.below(5), (char)r.range('a', 'z'));
	default: { static char const *w[] = { "title text", "checked", "disabled", "DISABLED", "x", "1", "left" }; return w[r.below(7)]; }
	}
}
static std::string gen_tag(rng &r, spec const &s)
{
	static char const *other[] = { "script", "style", "iframe", "object", "svg", "B", "A", "IMG", "x", "_x", "a1", "blink" };
	std::string name;
	if (r.chance(3, 4) && !s.tags.empty()) { auto it = s.tags.begin(); std::advance(it, r.below((uint32_t)s.tags.size())); name = it->first; if (r.chance(1, 8)) for (auto &c : name) c = (char)(r.chance(1, 2) ? toupper(c) : tolower(c)); }
	else name = r.chance(1, 2) ? other[r.below(12)] : TAGS[r.below(14)];
	if (r.chance(1, 4)) return "</" + name + (r.chance(1, 10) ? " " : "") + (r.chance(1, 20) ? " x=\"1\"" : "") + ">";
	std::string t = "<" + name;
	int na = r.chance(1, 2) ? 0 : r.range(1, 3);
	for (int i = 0; i < na; i++) {
		std::string pn;
		if (r.chance(3, 4) && !s.props.empty()) { auto it = s.props.begin(); std::advance(it, r.below((uint32_t)s.props.size())); pn = it->first.second; } else pn = r.chance(1, 2) ? PROPS[r.below(10)] : (r.chance(1, 2) ? "onclick" : "style");
		if (r.chance(1, 10)) for (auto &c : pn) c = (char)toupper(c);
		t += r.chance(1, 12) ? "" : (r.chance(1, 10) ? "\t" : " ");
		t += pn;
		int form = r.below(10);
		std::string v = r.chance(1, 6) ? pn : gen_value(r);
		// an allowed value with white space or a line end stuck to it is a different value (pattern and number rules are whole-string)
		if (r.chance(1, 8)) { static char const *deco[] = { "\n", "\r\n", "\n\n", " ", "\t", "\r", "\x0b", "\x0c" }; std::string d = deco[r.below(8)]; if (r.chance(2, 3)) v += d; else v = d + v; }
		if (form == 0) { if (r.chance(1, 2)) t += " "; }                                 // boolean form
		else if (form == 1) t += "=" + v;                                          // unquoted
		else if (form == 2) t += "='" + v + "'";
		else if (form == 3) t += " = \"" + v + "\"";
		else if (form == 4) t += "=\"" + v;                                        // unterminated
		else t += "=\"" + v + "\"";
	}
	if (r.chance(1, 4)) t += r.chance(1, 2) ? " /" : "/";
	else if (r.chance(1, 8)) t += " ";
	return t + (r.chance(1, 25) ? "" : ">");
}
static std::string gen_input(rng &r, spec const &s)
{
	std::string x;
	int n = r.range(0, 12);
	std::vector<std::string> open;
	for (int i = 0; i < n; i++) {
		switch (r.below(12)) {
		case 0: case 1: { static char const *w[] = { "hello", " world ", "a b", "\xc3\xa9", "\xe2\x82\xac", "x\ny", "1 < 2", "tab\there", "q\"q", "it's" }; x += w[r.below(10)]; break; }
		case 2: case 3: case 4: { std::string t = gen_tag(r, s); x += t; if (t.size() > 2 && t[1] != '/' && t[t.size() - 2] != '/' && r.chance(2, 3)) { size_t e = t.find_first_of(" \t/>", 1); open.push_back(t.substr(1, e - 1)); } break; }
		case 5: if (!open.empty()) { x += "</" + open.back() + ">"; open.pop_back(); } else x += "</b>"; break;
		case 6: { static char const *en[] = { "&amp;", "&lt;", "&gt;", "&quot;", "&nbsp;", "&copy;", "&bogus;", "&#65;", "&#x41;", "&#0;", "&#xD800;", "&#xDBFF;", "&#xDC00;", "&#xdfff;", "&#57343;", "&#55296;", "&#128;", "&#x10FFFF;", "&#x110000;", "&#9;", "&#;", "&#x;", "&amp", "&", "& ;", "&a b;", "&#1114111;", "&#xfffe;", "&AMP;", "&apos;" }; x += en[r.below(30)]; break; }
		case 7: { static char const *cm[] = { "<!-- c -->", "<!---->", "<!-->", "<!--->", "<!-- a -- b -->", "<!--[if IE]><script>x</script><![endif]-->", "<!-- <b> -->", "<!-- &amp; -->", "<!-- x --!>", "<!-- unterminated", "<!--x-->", "<!- x -->" }; x += cm[r.below(12)]; break; }
		case 8: { static char const *jk[] = { "<", ">", "<<", ">>", "<!DOCTYPE html>", "<?php x ?>", "<![CDATA[x]]>", "< b>", "<b", "</>", "</ b>", "<b/ >", "<>", "<1>", "<b\f>", "<b\x0b>" }; x += jk[r.below(16)]; break; }
		case 9: { static const std::string bad[] = { std::string(1, '\0'), "\x01", "\x7f", "\x80", "\xc0\xaf", "\xed\xa0\x80", "\xff", "\xc2\x85", "\xe2\x80", "\x1b" }; x += bad[r.below(10)]; break; }
		case 10: while (!open.empty() && r.chance(1, 2)) { x += "</" + open.back() + ">"; open.pop_back(); } break;
		default: x += "<b><i>x</b></i>";
		}
	}
	if (r.chance(2, 3)) while (!open.empty()) { x += "</" + open.back() + ">"; open.pop_back(); }
	// byte-level mutation of grammar output
	if (r.chance(1, 4) && !x.empty()) { int k = r.range(1, 3); for (int i = 0; i < k; i++) { size_t p = r.below((uint32_t)x.size()); switch (r.below(3)) { case 0: x[p] = (char)r.byte(); break; case 1: x.erase(p, 1); break; default: x.insert(p, 1, "<>&\"'/= ;#-!"[r.below(12)]); } if (x.empty()) break; } }
	return x;
}

struct ruleset { spec s; std::unique_ptr<xss::rules> R; std::string js; };
static ruleset &get_rules(uint64_t seed)
{
	static std::map<uint64_t, ruleset> cache;
	auto p = cache.find(seed);
	if (p != cache.end()) return p->second;
	ruleset &rs = cache[seed];
	rs.s = make_spec(seed);
	rs.R = build_rules(rs.s, rs.js);
	return rs;
}

#ifdef VERIF_FUZZ
extern "C" int LLVMFuzzerTestOneInput(uint8_t const *data, size_t size)
{
	if (size < 1) return 0;
	ruleset &rs = get_rules(1000 + data[0] % 48);
	check(rs.s, *rs.R, rs.js, std::string((char const *)data + 1, size - 1));
	if (O().viol_count) { fflush(stdout); abort(); }
	return 0;
}
#else
int main(int argc, char **argv)
{
	args a(argc, argv);
	std::string mode = a.str("mode", "run");
	if (mode == "one") {
		ruleset &rs = get_rules((uint64_t)a.num("rules_seed", 1));
		check(rs.s, *rs.R, rs.js, unhex(a.str("input")));
	} else if (mode == "long") {
		// very long attribute values against pattern-valued attributes (the library's own uri_matcher() expression and a plain
		// repeated group): the matcher works on untrusted text of any length and must come back with a verdict
		rng r(a.num("seed", 1));
		cppcms::xss::rules R;
		R.html(cppcms::xss::rules::xhtml_input);
		R.add_tag("a", cppcms::xss::rules::opening_and_closing);
		R.add_tag("span", cppcms::xss::rules::opening_and_closing);
		R.add_property("a", "href", cppcms::xss::rules::uri_matcher());
		R.add_property("a", "rel", cppcms::xss::rules::uri_matcher("(http|https)"));
		R.add_property("span", "title", booster::regex("(\\w+ ?)*"));
		R.add_property("span", "class", booster::regex("([a-z]+|[0-9]+)(,([a-z]+|[0-9]+))*"));
		static size_t const sizes[] = { 100, 1000, 2000, 4000, 7000, 10000, 20000, 50000, 120000 };
		for (size_t n : sizes) {
			std::vector<std::string> inputs;
			inputs.push_back("<a href=\"http://host.example/" + std::string(n, 'a') + "\">x</a>");
			inputs.push_back("<a href=\"http://host/" + [&]() { std::string p; while (p.size() < n) p += "seg" + std::to_string(r.below(100)) + "/"; return p; }() + "?q=1\">x</a>");
			inputs.push_back("<a rel=\"https://h/" + std::string(n, 'b') + "\">y</a>");
			inputs.push_back("<span title=\"" + [&]() { std::string p; while (p.size() < n) p += "word "; return p; }() + "\">t</span>");
			inputs.push_back("<span class=\"" + [&]() { std::string p = "a"; while (p.size() < n) p += ",b1"; return p; }() + "\">t</span>");
			inputs.push_back("<a href=\"javascript:" + std::string(n, 'a') + "\">x</a>");
			for (auto const &in : inputs) {
				O().count("long_value_inputs"); O().count("long_value_bytes", (long long)in.size());
				bool v = cppcms::xss::validate(in.data(), in.data() + in.size(), R);
				for (int how = 0; how < 2; how++) {
					std::string out = cppcms::xss::filter(in, R, how ? cppcms::xss::escape_invalid : cppcms::xss::remove_invalid);
					std::string rp = "{\"mode\":\"long\",\"value_bytes\":" + std::to_string(n) + ",\"input_prefix\":" + jstr(in.substr(0, 60)) + "}";
					if (v && out != in) O().viol("xss:valid-input-changed", "long attribute value", rp);
					if (!cppcms::xss::validate(out.data(), out.data() + out.size(), R)) O().viol("xss:output-does-not-validate", "long attribute value", rp);
					if (out.find("javascript:") != std::string::npos && out.find("<a") != std::string::npos && out.find("&lt;a") == std::string::npos) O().viol("xss:output-outside-white-list:scheme", "javascript: survived in an href", rp);
				}
				O().count(v ? "long_values_accepted" : "long_values_refused");
			}
		}
	} else {
		rng r(a.num("seed", 1));
		long long cases = a.num("cases", 1000);
		uint64_t base = (uint64_t)a.num("seed", 1) * 1000;
		for (long long i = 0; i < cases;) {
			uint64_t rseed = r.chance(1, 3) ? 1000 + r.below(48) : base + r.below(400);
			ruleset &rs = get_rules(rseed);
			O().seen("rule_sets", rseed);
			int per = r.range(5, 40);
			for (int k = 0; k < per && i < cases; k++, i++) {
				std::string x = gen_input(r, rs.s);
				if (rs.s.encoding == "UTF-16LE" && r.chance(3, 4)) { try { x = booster::locale::conv::from_utf<char>(x, "UTF-16LE", booster::locale::conv::skip); } catch (std::exception const &) {} }
				O().seen("inputs", mix(fnv(x), rseed));
				check(rs.s, *rs.R, rs.js, x);
				if (i < 2) O().sample("{\"rules\":" + rs.js + ",\"input\":" + jstr(x.substr(0, 300)) + "}");
			}
		}
	}
	finish(a);
	return O().viol_count ? 1 : 0;
}
#endif
