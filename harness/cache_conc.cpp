// C09 monitor: concurrent use of the thread-shared cache. Race detection is ThreadSanitizer's job
// (tsan flavor); this harness records client-boundary histories with unique values and checks them:
// (L1) sound stale/torn/foreign-read conditions on long histories, (L2) full linearizability (WGL search
// against the sequential model) on short histories, (P) progress of every thread.
#include "common/vh.h"
#include "common/clock_shim.h"
#include "cache_storage.h"
#include "base_cache.h"
#include "cache_over_ip.h"
#include "tcp_cache_server.h"
#include <cppcms/session_storage.h>
#include <booster/shared_ptr.h>
#include <booster/intrusive_ptr.h>
#include <sys/socket.h>
#include <netinet/in.h>
#include <memory>
#include <thread>
#include <atomic>
#include <chrono>
#include <sched.h>
#include <unistd.h>
#include <unordered_map>
#include <algorithm>

using namespace vh;
using cppcms::impl::base_cache;

// ---- yield hook (weak symbol in the library, defined here) --------------------------------
static std::atomic<int> g_yield_permille(0);
static std::atomic<long> g_yields(0);
static thread_local uint64_t t_rng = 88172645463325252ull;
extern "C" void cppcms_verif_yield(char const *)
{
	int pm = g_yield_permille.load(std::memory_order_relaxed);
	if (!pm) return;
	t_rng ^= t_rng << 13; t_rng ^= t_rng >> 7; t_rng ^= t_rng << 17;
	if ((int)(t_rng % 1000) >= pm) return;
	g_yields++;
	if ((t_rng >> 20) & 1) sched_yield(); else usleep((t_rng >> 24) % 60);
}

enum { STORE, FETCH, RISE, REMOVE, CLEAR, STATS };
struct rec {
	int tid, kind; std::string key, value; std::set<std::string> trig; long dl;
	int64_t call, ret;
	bool hit; std::string rvalue; std::set<std::string> rtrig; long rdl;
};
static int64_t now_ns() { return std::chrono::duration_cast<std::chrono::nanoseconds>(std::chrono::steady_clock::now().time_since_epoch()).count(); }
static std::string rec_json(rec const &r)
{
	static char const *n[] = { "store", "fetch", "rise", "remove", "clear", "stats" };
	std::string s = "{\"t\":" + std::to_string(r.tid) + ",\"op\":\"" + n[r.kind] + "\",\"key\":" + jstr(r.key) + ",\"call\":" + std::to_string(r.call) + ",\"ret\":" + std::to_string(r.ret);
	if (r.kind == STORE) { s += ",\"value\":" + jstr(r.value.substr(0, 24)) + ",\"dl\":" + std::to_string(r.dl) + ",\"trig\":["; bool f = true; for (auto const &t : r.trig) { if (!f) s += ","; f = false; s += jstr(t); } s += "]"; }
	if (r.kind == FETCH) s += std::string(",\"hit\":") + (r.hit ? "true" : "false") + (r.hit ? ",\"got\":" + jstr(r.rvalue.substr(0, 24)) : "");
	return s + "}";
}
static std::string hist_json(std::vector<rec> const &h, size_t maxn = 80)
{
	std::string s = "[";
	for (size_t i = 0; i < h.size() && i < maxn; i++) { if (i) s += ","; s += rec_json(h[i]); }
	return s + "]";
}

struct plan_op { int kind; std::string key; std::set<std::string> trig; long dl; size_t vlen; };

static std::atomic<long> g_progress(0);
static std::atomic<long> g_epoch(0);     // makes stored values unique across the histories that share a network world

static void run_threads(std::vector<booster::intrusive_ptr<base_cache> > const &nodes, std::vector<std::vector<plan_op> > const &plans, std::vector<rec> &history);
static void run_threads(booster::intrusive_ptr<base_cache> c, std::vector<std::vector<plan_op> > const &plans, std::vector<rec> &history)
{
	run_threads(std::vector<booster::intrusive_ptr<base_cache> >(1, c), plans, history);
}
static void run_threads(std::vector<booster::intrusive_ptr<base_cache> > const &nodes, std::vector<std::vector<plan_op> > const &plans, std::vector<rec> &history)
{
	int T = (int)plans.size();
	g_epoch++;
	std::vector<std::vector<rec> > logs(T);
	std::atomic<int> ready(0); std::atomic<bool> go(false);
	std::vector<std::thread> th;
	for (int t = 0; t < T; t++) th.push_back(std::thread([&, t]() {
		t_rng = 0x9E3779B97F4A7C15ull * (t + 1) + (uint64_t)now_ns();
		base_cache *c = nodes[t % nodes.size()].get();
		std::vector<rec> &log = logs[t];
		log.reserve(plans[t].size());
		ready++;
		while (!go.load()) { }
		uint64_t n = 0;
		for (plan_op const &p : plans[t]) {
			rec r; r.tid = t; r.kind = p.kind; r.key = p.key; r.trig = p.trig; r.dl = p.dl; r.hit = false; r.rdl = 0;
			if (p.kind == STORE) { r.value = "e" + std::to_string(g_epoch.load()) + "t" + std::to_string(t) + "-" + std::to_string(++n) + ":"; r.value.append(p.vlen, (char)('a' + (n % 26))); }
			r.call = now_ns();
			switch (p.kind) {
			case STORE: c->store(p.key, r.value, p.trig, (time_t)p.dl); break;
			case FETCH: { time_t dl = 0; r.hit = c->fetch(p.key, &r.rvalue, &r.rtrig, &dl); r.rdl = (long)dl; break; }
			case RISE: c->rise(p.key); break;
			case REMOVE: c->remove(p.key); break;
			case CLEAR: c->clear(); break;
			default: { unsigned a = 0, b = 0; c->stats(a, b); }
			}
			r.ret = now_ns();
			log.push_back(r);
			g_progress++;
		}
	}));
	while (ready.load() < T) { }
	go = true;
	for (auto &t : th) t.join();
	history.clear();
	for (auto &l : logs) history.insert(history.end(), l.begin(), l.end());
}

// ---- (L1) sound necessary conditions -------------------------------------------------------
static bool kills(rec const &k, rec const &s)
{
	switch (k.kind) {
	case STORE: return &k != &s && k.key == s.key;
	case REMOVE: return k.key == s.key;
	case CLEAR: return true;
	case RISE: return k.key == s.key || s.trig.count(k.key) != 0;
	default: return false;
	}
}
static void check_l1(std::vector<rec> const &h, unsigned limit)
{
	std::unordered_map<std::string, size_t> by_value;
	for (size_t i = 0; i < h.size(); i++) if (h[i].kind == STORE) by_value[h[i].value] = i;
	long now = vclock::now();
	long long overlaps = 0;
	for (size_t i = 0; i < h.size(); i++) {
		rec const &f = h[i];
		if (f.kind != FETCH) continue;
		O().count("fetches_checked");
		if (f.hit) {
			auto p = by_value.find(f.rvalue);
			if (p == by_value.end()) { O().viol("conc:torn-or-unknown-value", rec_json(f), hist_json(h)); continue; }
			rec const &s = h[p->second];
			std::set<std::string> want = s.trig; want.insert(s.key);
			if (s.key != f.key) { O().viol("conc:value-of-another-key", rec_json(f) + " stored by " + rec_json(s), hist_json(h)); continue; }
			if (f.rtrig != want || f.rdl != s.dl) { O().viol("conc:torn-trigger-set-or-deadline", rec_json(f), hist_json(h)); continue; }
			if (s.call > f.ret) { O().viol("conc:value-from-the-future", rec_json(f), hist_json(h)); continue; }
			if (s.dl < now) { O().viol("conc:hit-after-deadline", rec_json(f), hist_json(h)); continue; }
			for (size_t k = 0; k < h.size(); k++) {
				rec const &K = h[k];
				if (K.kind == FETCH || K.kind == STATS || !kills(K, s)) continue;
				if (K.call > s.ret && K.ret < f.call) { O().viol("conc:stale-read-after-completed-invalidation", rec_json(f) + " killed by " + rec_json(K) + " store " + rec_json(s), hist_json(h)); break; }
			}
			O().count("hits");
		} else if (limit == 0) {
			// a miss needs an explanation: no completed live store, or some potentially killing operation in the window
			int64_t earliest = -1;
			for (auto const &s : h) if (s.kind == STORE && s.key == f.key && s.ret < f.call && s.dl >= now) { if (earliest < 0 || s.call < earliest) earliest = s.call; }
			if (earliest >= 0) {
				bool excuse = false;
				for (auto const &K : h) {
					if (K.kind == FETCH || K.kind == STATS || K.kind == STORE) continue;
					if (K.ret > earliest && K.call < f.ret) { excuse = true; break; }
				}
				// a concurrent or later expired-on-arrival store to the key also explains a miss
				for (auto const &K : h) if (K.kind == STORE && K.key == f.key && K.dl < now && K.ret > earliest && K.call < f.ret) excuse = true;
				if (!excuse) O().viol("conc:miss-although-live-store-completed-and-nothing-could-remove-it", rec_json(f), hist_json(h));
			}
			O().count("misses");
		}
	}
	// how much real overlap did we get?
	std::vector<rec const *> byc;
	for (auto const &r : h) byc.push_back(&r);
	std::sort(byc.begin(), byc.end(), [](rec const *a, rec const *b) { return a->call < b->call; });
	for (size_t i = 0; i + 1 < byc.size(); i++) for (size_t j = i + 1; j < byc.size() && byc[j]->call < byc[i]->ret; j++) if (byc[j]->tid != byc[i]->tid) overlaps++;
	O().count("overlapping_pairs", overlaps);
}

// ---- (L2) linearizability of short histories (Wing-Gong search with memoisation) ------------
struct mval { std::string value; std::set<std::string> trig; long dl; };
typedef std::map<std::string, mval> mstate;
static uint64_t state_hash(mstate const &s) { uint64_t h = 7; for (auto const &e : s) { h = mix(h, fnv(e.first)); h = mix(h, fnv(e.second.value)); } return h; }
static bool apply_model(mstate &s, rec const &r)
{
	long now = vclock::now();
	switch (r.kind) {
	case STORE: { mval v; v.value = r.value; v.trig = r.trig; v.trig.insert(r.key); v.dl = r.dl; s[r.key] = v; return true; }
	case FETCH: { auto p = s.find(r.key); bool hit = p != s.end() && p->second.dl >= now; if (hit != r.hit) return false; if (hit && (p->second.value != r.rvalue || p->second.trig != r.rtrig || p->second.dl != r.rdl)) return false; return true; }
	case RISE: { std::vector<std::string> kill; for (auto const &e : s) if (e.second.trig.count(r.key)) kill.push_back(e.first); for (auto const &k : kill) s.erase(k); return true; }
	case REMOVE: s.erase(r.key); return true;
	case CLEAR: s.clear(); return true;
	default: return true;
	}
}
struct wgl {
	std::vector<rec> const &h; size_t n; std::set<std::pair<uint64_t, uint64_t> > seen; long long steps; bool timeout;
	explicit wgl(std::vector<rec> const &hh) : h(hh), n(hh.size()), steps(0), timeout(false) {}
	bool go(uint64_t done, mstate const &st) {
		if (done == (n >= 64 ? ~0ull : ((1ull << n) - 1))) return true;
		if (++steps > 2000000) { timeout = true; return false; }
		if (!seen.insert(std::make_pair(done, state_hash(st))).second) return false;
		// minimal return time among pending ops: an op may go first only if it was called before every pending op returned
		int64_t minret = INT64_MAX;
		for (size_t i = 0; i < n; i++) if (!(done >> i & 1)) minret = std::min(minret, h[i].ret);
		for (size_t i = 0; i < n; i++) {
			if (done >> i & 1) continue;
			if (h[i].call > minret) continue;
			mstate s2 = st;
			if (!apply_model(s2, h[i])) continue;
			if (go(done | (1ull << i), s2)) return true;
			if (timeout) return false;
		}
		return false;
	}
};

static plan_op gen_op(rng &r, std::vector<std::string> const &keys, std::vector<std::string> const &trigs, bool allow_expired)
{
	plan_op p; p.dl = vclock::now() + 1000; p.vlen = 0;
	int k = r.below(100);
	if (k < 38) {
		p.kind = STORE; p.key = r.pick(keys);
		int nt = r.below(3); for (int i = 0; i < nt; i++) p.trig.insert(r.pick(trigs));
		if (r.chance(1, 10)) p.trig.insert(r.pick(keys));
		if (allow_expired && r.chance(1, 12)) p.dl = vclock::now() - 1;
		p.vlen = r.chance(1, 6) ? r.below(3000) : r.below(24);
	}
	else if (k < 78) { p.kind = FETCH; p.key = r.pick(keys); }
	else if (k < 88) { p.kind = RISE; p.key = r.chance(1, 4) ? r.pick(keys) : r.pick(trigs); }
	else if (k < 94) { p.kind = REMOVE; p.key = r.pick(keys); }
	else if (k < 96) { p.kind = CLEAR; }
	else { p.kind = STATS; }
	return p;
}

// ---- network cache: several application nodes (each one cache_over_ip object shared by its threads, optional shared L1)
// in front of 1..2 multi-threaded tcp_cache_service servers. cache_over_ip::remove() is documented N/A, so no REMOVE ops.
static int free_port()
{
	static rng pr((uint64_t)getpid() * 7919u + (uint64_t)now_ns());
	for (int i = 0; i < 200; i++) {
		int p = 10000 + (int)pr.below(20000);
		int s = socket(AF_INET, SOCK_STREAM, 0);
		sockaddr_in a; memset(&a, 0, sizeof a); a.sin_family = AF_INET; a.sin_port = htons(p); a.sin_addr.s_addr = htonl(INADDR_LOOPBACK);
		int ok = bind(s, (sockaddr *)&a, sizeof a);
		close(s);
		if (ok == 0) return p;
	}
	return 0;
}
struct net_world {
	std::vector<std::unique_ptr<cppcms::impl::tcp_cache_service> > servers;
	std::vector<booster::intrusive_ptr<base_cache> > nodes;
	std::string desc; int ns;
	net_world(rng &r, int max_nodes, int nservers = 0) {
		ns = nservers ? nservers : r.range(1, 2); int nn = r.range(1, max_nodes);
		std::vector<std::string> ips; std::vector<int> ports;
		for (int i = 0; i < ns; i++) {
			int port = free_port();
			booster::shared_ptr<cppcms::sessions::session_storage_factory> nosess;
			servers.push_back(std::unique_ptr<cppcms::impl::tcp_cache_service>(new cppcms::impl::tcp_cache_service(cppcms::impl::thread_cache_factory(0), nosess, r.range(1, 3), "127.0.0.1", port)));
			ips.push_back("127.0.0.1"); ports.push_back(port);
		}
		desc = std::to_string(ns) + " servers, nodes:";
		for (int i = 0; i < nn; i++) {
			booster::intrusive_ptr<base_cache> l1;
			int kind = r.below(3);
			if (kind) l1 = cppcms::impl::thread_cache_factory(kind == 2 ? r.range(1, 3) : 0);
			nodes.push_back(cppcms::impl::tcp_cache_factory(ips, ports, l1));
			desc += kind == 0 ? " noL1" : kind == 1 ? " L1" : " smallL1";
		}
	}
	~net_world() { nodes.clear(); for (auto &s : servers) s->stop(); }
};
static plan_op gen_net_op(rng &r, std::vector<std::string> const &keys, std::vector<std::string> const &trigs)
{
	for (;;) { plan_op p = gen_op(r, keys, trigs, true); if (p.kind == REMOVE || p.kind == STATS) continue; return p; }
}

int main(int argc, char **argv)
{
	args a(argc, argv);
	rng r(a.num("seed", 1));
	std::string mode = a.str("mode", "long");
	g_yield_permille = (int)a.num("yield", 30);
	// watchdog for (P): no completed operation for a long time while threads are still running
	std::atomic<bool> done(false);
	std::thread wd([&]() {
		long last = -1; int idle = 0;
		while (!done.load()) {
			usleep(200000);
			long p = g_progress.load();
			if (p == last) idle++; else { idle = 0; last = p; }
			if (idle > 5 * 120) { O().viol("conc:no-progress-possible-deadlock", "no operation completed for 120 s"); O().summary(); _exit(1); }
		}
	});
	std::vector<std::string> trigs = { "T1", "T2" };
	if (mode == "long") {
		long long hist = a.num("histories", 10);
		int ops = (int)a.num("ops", 2000);
		for (long long hI = 0; hI < hist; hI++) {
			int T = r.range(2, (int)a.num("threads", 8));
			unsigned limit = r.chance(1, 3) ? r.range(2, 5) : 0;
			std::vector<std::string> keys; int nk = r.range(2, 5); for (int i = 0; i < nk; i++) keys.push_back("k" + std::to_string(i));
			std::vector<std::vector<plan_op> > plans(T);
			for (int t = 0; t < T; t++) for (int i = 0; i < ops; i++) plans[t].push_back(gen_op(r, keys, trigs, true));
			booster::intrusive_ptr<base_cache> c = cppcms::impl::thread_cache_factory(limit);
			std::vector<rec> h;
			run_threads(c, plans, h);
			check_l1(h, limit);
			O().count("histories_long");
			O().count("ops", (long long)h.size());
			O().seen("shapes", mix(mix(T, limit), nk));
			if (hI == 0) O().sample("{\"threads\":" + std::to_string(T) + ",\"limit\":" + std::to_string(limit) + ",\"first_ops\":" + hist_json(h, 4) + "}");
		}
	} else if (mode == "netlong") {
		long long hist = a.num("histories", 4);
		int ops = (int)a.num("ops", 300);
		for (long long hI = 0; hI < hist; hI++) {
			net_world w(r, 3);
			int T = r.range(2, (int)a.num("threads", 6));
			std::vector<std::string> keys; int nk = r.range(2, 5); for (int i = 0; i < nk; i++) keys.push_back(i == 3 ? std::string("k\x01\xff") : "k" + std::to_string(i));
			std::vector<std::vector<plan_op> > plans(T);
			for (int t = 0; t < T; t++) for (int i = 0; i < ops; i++) plans[t].push_back(gen_net_op(r, keys, trigs));
			std::vector<rec> h;
			run_threads(w.nodes, plans, h);
			check_l1(h, 0);
			O().count("histories_net_long");
			O().count("ops", (long long)h.size());
			O().seen("shapes", mix(mix(T, fnv(w.desc)), nk));
			if (hI == 0) O().sample("{\"threads\":" + std::to_string(T) + ",\"world\":" + jstr(w.desc) + ",\"first_ops\":" + hist_json(h, 4) + "}");
		}
	} else if (mode == "flood") {
		// "every operation completes", restated as bounded progress: a store / rise / remove issued while R threads keep fetching a
		// hot key (the cache's very purpose: many workers serving one cached page) returns within `bound` seconds although the
		// readers never pause. The writer publishes when it starts an operation; the main thread watches the clock.
		int R = (int)a.num("readers", 8);
		int writes = (int)a.num("writes", 40);
		double bound = (double)a.num("bound", 10);
		bool shared = a.has("shared");
		booster::intrusive_ptr<base_cache> c = shared ? cppcms::impl::process_cache_factory(8 << 20, 0) : cppcms::impl::thread_cache_factory(0);
		std::set<std::string> notr;
		std::string big(50000, 'v');
		c->store("hot", big, notr, time(0) + 100000, 0);
		std::atomic<bool> stop(false);
		std::atomic<long> fetches(0), op_started_ms(-1), completed(0);
		auto now_ms = []() { struct timespec ts; clock_gettime(CLOCK_MONOTONIC, &ts); return (long)(ts.tv_sec * 1000L + ts.tv_nsec / 1000000L); };
		std::vector<std::thread> th;
		for (int i = 0; i < R; i++) th.push_back(std::thread([&]() { std::string v; while (!stop.load(std::memory_order_relaxed)) { c->fetch("hot", &v, 0, 0, 0); fetches++; g_progress++; } }));
		long worst = 0;
		std::thread writer([&]() {
			for (int i = 0; i < writes && !stop.load(); i++) {
				long t0 = now_ms(); op_started_ms = t0;
				switch (i % 4) { case 0: case 1: c->store(i % 8 == 0 ? "hot" : "other", i % 8 == 0 ? big : std::string("x"), notr, time(0) + 100000, 0); break; case 2: c->rise("no-such-trigger"); break; default: c->remove("other"); }
				long dt = now_ms() - t0; if (dt > worst) worst = dt;
				op_started_ms = -1; completed++;
				usleep(2000);
			}
		});
		bool starved = false;
		while (completed.load() < writes) {
			usleep(20000);
			long s0 = op_started_ms.load();
			if (s0 >= 0 && now_ms() - s0 > (long)(bound * 1000)) { starved = true; break; }
		}
		long seen = fetches.load();
		stop = true;                         // without readers the writer gets through
		writer.join(); for (auto &t : th) t.join();
		std::string rp = "{\"mode\":\"flood\",\"backend\":\"" + std::string(shared ? "process_shared" : "thread_shared") + "\",\"readers\":" + std::to_string(R) + ",\"bound_s\":" + std::to_string((int)bound) + "}";
		if (starved) O().viol("conc:writer-starved-by-continuous-readers", std::string(shared ? "process_shared" : "thread_shared") + " cache: an operation that needs the exclusive lock had not returned after " + std::to_string((int)bound) + " s while " + std::to_string(R) + " threads kept fetching one key (" + std::to_string(seen) + " fetches meanwhile, " + std::to_string(completed.load()) + " of " + std::to_string(writes) + " writes done)", rp);
		O().count("flood_scenarios"); O().count("flood_fetches", seen); O().count("flood_writes_completed", completed.load());
		O().raw("flood_worst_write_ms", std::to_string(worst));
		O().seen("shapes", mix(900 + (shared ? 1 : 0), R));
	} else if (mode == "netshort") {
		long long hist = a.num("histories", 300);
		std::unique_ptr<net_world> w;
		for (long long hI = 0; hI < hist; hI++) {
			// a world serves a batch of short histories; it is cleared (sequentially) between them
			// rise() and clear() visit the servers one after another, so with two servers they are not atomic and only the
			// per-operation real-time conditions (check_l1) apply; full linearizability is demanded of one-server worlds
			if (!w || hI % 25 == 0) { w.reset(); w.reset(new net_world(r, 3, (hI / 25) % 3 == 2 ? 2 : 1)); }
			w->nodes[0]->clear();
			for (auto &n : w->nodes) { std::string tmp; n->fetch("a", &tmp, 0, 0); n->fetch("b", &tmp, 0, 0); }   // L1 copies are validated against the server anyway
			int T = r.range(2, 3);
			int ops = r.range(2, 6);
			std::vector<std::string> keys = { "a", "b" };
			std::vector<std::vector<plan_op> > plans(T);
			for (int t = 0; t < T; t++) for (int i = 0; i < ops; i++) { plan_op p = gen_net_op(r, keys, trigs); p.vlen = 0; plans[t].push_back(p); }
			std::vector<rec> h;
			run_threads(w->nodes, plans, h);
			check_l1(h, 0);
			O().count("histories_net_short");
			O().count("ops", (long long)h.size());
			if (w->ns > 1) { O().count("histories_two_servers_realtime_conditions_only"); continue; }
			wgl wg(h);
			mstate st;
			bool ok = wg.go(0, st);
			if (wg.timeout) O().count("linearizability_inconclusive");
			else if (!ok) O().viol("netconc:history-not-linearizable", "no sequential order consistent with real time explains the results; " + w->desc, hist_json(h));
			else O().count("histories_linearized");
			uint64_t sh = fnv(w->desc); for (auto const &x : h) sh = mix(sh, (uint64_t)(x.kind * 7 + x.tid * 31 + (x.hit ? 3 : 0)) ^ fnv(x.key));
			O().seen("shapes", sh);
			if (hI == 0) O().sample("{\"world\":" + jstr(w->desc) + ",\"short_history\":" + hist_json(h, 20) + "}");
		}
	} else {
		long long hist = a.num("histories", 2000);
		for (long long hI = 0; hI < hist; hI++) {
			int T = r.range(2, 3);
			int ops = r.range(2, 6);
			std::vector<std::string> keys = { "a", "b" };
			std::vector<std::vector<plan_op> > plans(T);
			for (int t = 0; t < T; t++) for (int i = 0; i < ops; i++) { plan_op p = gen_op(r, keys, trigs, true); p.vlen = 0; plans[t].push_back(p); }
			booster::intrusive_ptr<base_cache> c = cppcms::impl::thread_cache_factory(0);
			std::vector<rec> h;
			run_threads(c, plans, h);
			check_l1(h, 0);
			wgl w(h);
			mstate st;
			bool ok = w.go(0, st);
			O().count("histories_short");
			O().count("ops", (long long)h.size());
			if (w.timeout) O().count("linearizability_inconclusive");
			else if (!ok) O().viol("conc:history-not-linearizable", "no sequential order consistent with real time explains the results", hist_json(h));
			else O().count("histories_linearized");
			uint64_t sh = 0; for (auto const &x : h) sh = mix(sh, (uint64_t)(x.kind * 7 + x.tid * 31 + (x.hit ? 3 : 0)) ^ fnv(x.key));
			O().seen("shapes", sh);
			if (hI == 0) O().sample("{\"short_history\":" + hist_json(h, 20) + "}");
		}
	}
	done = true; wd.join();
	O().count("yields_taken", g_yields.load());
	finish(a);
	return O().viol_count ? 1 : 0;
}
