// C20 monitor: url_dispatcher / url_mapper / mount_point against an independent model built on
// std::regex (ECMAScript engine, not PCRE) over generated application trees.
#include "common/vh.h"
#include <cppcms/service.h>
#include <cppcms/application.h>
#include <cppcms/url_dispatcher.h>
#include <cppcms/url_mapper.h>
#include <cppcms/mount_point.h>
#include <cppcms/http_context.h>
#include <cppcms/http_response.h>
#include <cppcms/http_request.h>
#include <cppcms/json.h>
#include <booster/regex.h>
#include "tests/dummy_api.h"
#include <regex>
#include <memory>

using namespace vh;

// ------------------------------------------------------------------ pattern family
struct pat { char const *regex; char const *tmpl; int ngroups; char const *glang; };   // glang: one char per group: d digits, a [a-z]+, w \w+, b (b|c), D \d{1,3}, A [a-z]*
static const pat PATS[] = {
	{ "/alpha", "/alpha", 0, "" },
	{ "/beta", "/beta", 0, "" },
	{ "/item/(\\d+)", "/item/{1}", 1, "d" },
	{ "/item/(\\d+)/edit", "/item/{1}/edit", 1, "d" },
	{ "/u/([a-z]+)/p/(\\d+)", "/u/{1}/p/{2}", 2, "ad" },
	{ "/(\\w+)\\.html", "/{1}.html", 1, "w" },
	{ "/a(b|c)d", "/a{1}d", 1, "b" },
	{ "/x/(\\d{1,3})(/opt)?", "/x/{1}", 2, "D" },
	{ "/([a-z]*)/(\\d+)/([a-z]+)/(\\d+)/([a-z]+)/(\\d+)", "/{1}/{2}/{3}/{4}/{5}/{6}", 6, "AdadaD" },
	{ "/item/.*", 0, 0, "" },
	{ "(/.*)?", 0, 1, "" },
	{ "", "", 0, "" },
	{ "/", "/", 0, "" },
	{ "/item/(\\d+)|/thing/(\\d+)", 0, 2, "" },
	{ "/alpha|/alphabet", 0, 0, "" },
	{ "/be?ta+", 0, 0, "" },
	{ "/l/([a-z]+)/w/(\\d+)", "/l/{lang}/w/{1}", 2, "ad" },      // {lang} is a keyword: set_value("lang",..) or map(out,"key;lang",L,n)
};
static bool has_keyword(pat const &P) { return P.tmpl && strstr(P.tmpl, "{lang}"); }
static const int NPATS = sizeof PATS / sizeof PATS[0];
static std::string gen_group(rng &r, char lang)
{
	std::string s;
	switch (lang) {
	case 'd': { int n = r.chance(1, 25) ? r.range(9, 12) : r.range(1, 5); for (int i = 0; i < n; i++) s += (char)r.range('0', '9'); break; }
	case 'D': { int n = r.range(1, 3); for (int i = 0; i < n; i++) s += (char)r.range('0', '9'); break; }
	case 'a': { int n = r.range(1, 5); for (int i = 0; i < n; i++) s += (char)r.range('a', 'z'); break; }
	case 'A': { int n = r.range(0, 4); for (int i = 0; i < n; i++) s += (char)r.range('a', 'z'); break; }
	case 'w': { int n = r.range(1, 5); for (int i = 0; i < n; i++) s += "abcXYZ019_"[r.below(10)]; break; }
	case 'b': s = r.chance(1, 2) ? "b" : "c"; break;
	}
	return s;
}

// ------------------------------------------------------------------ tree specification
struct espec {
	int id; bool mount; int pat; std::vector<int> groups; std::string method; int style;
	std::string key; int child; std::string mregex, murl; int part;
	int slot = 0;
};
// typed handlers (url_dispatcher::map with member functions): digits -> int, letters/word -> std::string, the one-character group -> char
static bool typed_capable(pat const &P) { std::string g = P.glang; return g == "d" || g == "ad" || g == "w" || g == "b"; }
struct nspec { std::vector<espec> entries; int parent; std::string name; };
struct tree { std::vector<nspec> nodes; int nhandlers; };

static tree gen_tree(rng &r)
{
	tree t; t.nhandlers = 0;
	nspec root; root.parent = -1; t.nodes.push_back(root);
	int max_depth = r.range(1, 4);
	std::vector<int> depth(1, 1);
	for (size_t ni = 0; ni < t.nodes.size(); ni++) {
		int nh = r.range(1, 6);
		int nchild = depth[ni] < max_depth ? r.below(3) : 0;
		std::vector<int> order;
		for (int i = 0; i < nh; i++) order.push_back(0);
		for (int i = 0; i < nchild; i++) order.insert(order.begin() + r.below((uint32_t)order.size() + 1), 1);
		int ci = 0, hi = 0;
		for (int kind : order) {
			espec e; e.id = -1; e.mount = kind == 1; e.child = -1; e.part = 0; e.style = 0; e.pat = 0;
			if (kind == 0) {
				e.id = t.nhandlers++;
				e.pat = r.below(NPATS);
				int ng = PATS[e.pat].ngroups;
				e.style = r.below(5);                       // 0 assign (classic, selected groups) 1 assign_generic 2 map_generic 3 map_generic with method 4 typed map()
				if (e.style == 4 && !typed_capable(PATS[e.pat])) e.style = 0;
				int nsel = ng ? r.range(1, std::min(ng, 6)) : 0;
				if (e.style == 0) { for (int g = 0; g < nsel; g++) e.groups.push_back(r.chance(1, 8) ? 0 : r.range(1, ng)); if (ng == PATS[e.pat].ngroups && PATS[e.pat].tmpl && r.chance(2, 3)) { e.groups.clear(); for (int g = 1; g <= ng && g <= 6; g++) e.groups.push_back(g); } }
				else if (e.style == 4) { for (int g = 1; g <= ng; g++) e.groups.push_back(g); e.slot = hi; }
				else for (int g = 0; g <= ng; g++) e.groups.push_back(g);
				if (e.style == 3 || (e.style == 4 && r.chance(1, 3))) { static char const *ms[] = { "GET", "POST", "(PUT|DELETE)", "P.*", "get", "GET|HEAD", "P(OS|U)T", "[A-Z]+T", "(PATCH|PUT)" }; e.method = ms[r.below(9)]; }
				if (PATS[e.pat].tmpl) e.key = "k" + std::to_string(hi);
				hi++;
			} else {
				e.child = (int)t.nodes.size();
				nspec c; c.parent = (int)ni; c.name = "c" + std::to_string(ci);
				t.nodes.push_back(c); depth.push_back(depth[ni] + 1);
				std::string pfx = r.chance(1, 4) ? "/item" : "/" + c.name;      // "/item" collides with handler patterns on purpose
				e.mregex = pfx + "(/.*)?"; e.murl = pfx + "{1}"; e.part = 1;
				e.key = c.name;
				ci++;
			}
			t.nodes[ni].entries.push_back(e);
		}
	}
	return t;
}
static std::string tree_json(tree const &t)
{
	std::string s = "[";
	for (size_t i = 0; i < t.nodes.size(); i++) {
		if (i) s += ",";
		s += "{\"node\":" + std::to_string(i) + ",\"entries\":[";
		for (size_t k = 0; k < t.nodes[i].entries.size(); k++) {
			espec const &e = t.nodes[i].entries[k];
			if (k) s += ",";
			if (e.mount) s += "{\"mount\":" + jstr(e.mregex) + ",\"child\":" + std::to_string(e.child) + "}";
			else { s += "{\"h\":" + std::to_string(e.id) + ",\"re\":" + jstr(PATS[e.pat].regex) + ",\"style\":" + std::to_string(e.style) + ",\"method\":" + jstr(e.method) + ",\"groups\":["; for (size_t g = 0; g < e.groups.size(); g++) { if (g) s += ","; s += std::to_string(e.groups[g]); } s += "]}"; }
		}
		s += "]}";
	}
	return s + "]";
}

// ------------------------------------------------------------------ observation
struct call { int id; std::vector<std::string> args; };
static std::vector<call> g_calls;

class napp : public cppcms::application {
public:
	int slot_id[6];
	void rec(int slot, std::vector<std::string> const &a) { call c; c.id = slot_id[slot]; c.args = a; g_calls.push_back(c); }
	template <int S> void t_i(int v) { rec(S, { std::to_string(v) }); }
	template <int S> void t_s(std::string const &v) { rec(S, { v }); }
	template <int S> void t_c(char v) { rec(S, { std::string(1, v) }); }
	template <int S> void t_si(std::string v, int n) { rec(S, { v, std::to_string(n) }); }
	napp(cppcms::service &s, tree const &t, int node, std::vector<napp *> &all) : cppcms::application(s)
	{
		all[node] = this;
		for (espec const &e : t.nodes[node].entries) {
			if (e.mount) {
				napp *c = new napp(s, t, e.child, all);
				attach(c, e.key, e.murl, e.mregex, e.part);
				continue;
			}
			std::string re = PATS[e.pat].regex;
			int id = e.id; std::vector<int> g = e.groups;
			switch (e.style) {
			case 0:
				switch (g.size()) {
				case 0: dispatcher().assign(re, [id]() { call c; c.id = id; g_calls.push_back(c); }); break;
				case 1: dispatcher().assign(re, [id](std::string a) { call c; c.id = id; c.args = { a }; g_calls.push_back(c); }, g[0]); break;
				case 2: dispatcher().assign(re, [id](std::string a, std::string b) { call c; c.id = id; c.args = { a, b }; g_calls.push_back(c); }, g[0], g[1]); break;
				case 3: dispatcher().assign(re, [id](std::string a, std::string b, std::string d) { call c; c.id = id; c.args = { a, b, d }; g_calls.push_back(c); }, g[0], g[1], g[2]); break;
				case 4: dispatcher().assign(re, [id](std::string a, std::string b, std::string d, std::string e4) { call c; c.id = id; c.args = { a, b, d, e4 }; g_calls.push_back(c); }, g[0], g[1], g[2], g[3]); break;
				case 5: dispatcher().assign(re, [id](std::string a, std::string b, std::string d, std::string e4, std::string e5) { call c; c.id = id; c.args = { a, b, d, e4, e5 }; g_calls.push_back(c); }, g[0], g[1], g[2], g[3], g[4]); break;
				default: dispatcher().assign(re, [id](std::string a, std::string b, std::string d, std::string e4, std::string e5, std::string e6) { call c; c.id = id; c.args = { a, b, d, e4, e5, e6 }; g_calls.push_back(c); }, g[0], g[1], g[2], g[3], g[4], g[5]); break;
				}
				break;
			case 1:
				dispatcher().assign_generic(re, [id](booster::cmatch const &m) { call c; c.id = id; for (size_t i = 0; i < m.size(); i++) c.args.push_back(m[i]); g_calls.push_back(c); });
				break;
			case 2:
				dispatcher().map_generic(booster::regex(re), [id](cppcms::application &, booster::cmatch const &m) { call c; c.id = id; for (size_t i = 0; i < m.size(); i++) c.args.push_back(m[i]); g_calls.push_back(c); return true; });
				break;
			case 3:
				dispatcher().map_generic(e.method, booster::regex(re), [id](cppcms::application &, booster::cmatch const &m) { call c; c.id = id; for (size_t i = 0; i < m.size(); i++) c.args.push_back(m[i]); g_calls.push_back(c); return true; });
				break;
			default: {
				slot_id[e.slot] = id;
				std::string gl = PATS[e.pat].glang;
#define TYPED_(S) case S: \
				if (gl == "d") { if (e.method.empty()) dispatcher().map(re, &napp::t_i<S>, this, 1); else dispatcher().map(e.method, re, &napp::t_i<S>, this, 1); } \
				else if (gl == "w") { if (e.method.empty()) dispatcher().map(re, &napp::t_s<S>, this, 1); else dispatcher().map(e.method, re, &napp::t_s<S>, this, 1); } \
				else if (gl == "b") { if (e.method.empty()) dispatcher().map(re, &napp::t_c<S>, this, 1); else dispatcher().map(e.method, re, &napp::t_c<S>, this, 1); } \
				else { if (e.method.empty()) dispatcher().map(re, &napp::t_si<S>, this, 1, 2); else dispatcher().map(e.method, re, &napp::t_si<S>, this, 1, 2); } \
				break;
				switch (e.slot) { TYPED_(0) TYPED_(1) TYPED_(2) TYPED_(3) TYPED_(4) TYPED_(5) }
#undef TYPED_
				O().count("typed_handlers_registered");
			}
			}
			if (!e.key.empty()) mapper().assign(e.key, PATS[e.pat].tmpl);
		}
	}
};

// ------------------------------------------------------------------ model (std::regex)
static std::regex const &cre(std::string const &p)
{
	static std::map<std::string, std::regex> cache;
	auto it = cache.find(p);
	if (it == cache.end()) it = cache.insert(std::make_pair(p, std::regex(p, std::regex::ECMAScript))).first;
	return it->second;
}
static bool method_ok(std::string const &filter, std::string const &method)
{
	if (filter.empty()) return true;
	bool plain = true; for (char c : filter) if (!(c >= 'A' && c <= 'Z')) plain = false;
	if (plain) return filter == method;
	return std::regex_match(method, cre(filter));
}
// returns handler id or -1 (404); fills args
static int model_dispatch(tree const &t, int node, std::string const &url, std::string const &method, std::vector<std::string> &args)
{
	for (espec const &e : t.nodes[node].entries) {
		std::smatch m;
		if (e.mount) {
			if (!std::regex_match(url, m, cre(e.mregex))) continue;
			return model_dispatch(t, e.child, m[e.part].str(), method, args);   // the first matching mount point decides
		}
		if (!method_ok(e.method, method)) continue;
		if (!std::regex_match(url, m, cre(PATS[e.pat].regex))) continue;
		args.clear();
		if (e.style == 4) {
			// the arguments are the captured groups converted to the parameter types; a group that does not convert (here: a number
			// beyond int) makes the handler not match and the search goes on, as documented
			std::string gl = PATS[e.pat].glang; bool ok = true;
			for (size_t k = 0; k < gl.size() && ok; k++) {
				std::string g = m[k + 1].str();
				if (gl[k] == 'd') { std::string z = g; while (z.size() > 1 && z[0] == '0') z.erase(0, 1); if (z.size() > 10 || strtoll(z.c_str(), 0, 10) > 2147483647LL) ok = false; else args.push_back(std::to_string(strtoll(z.c_str(), 0, 10))); }
				else args.push_back(g);
			}
			if (!ok) { args.clear(); O().count("typed_handlers_skipped_for_a_group_that_does_not_convert"); continue; }
			O().count(std::string("typed_handlers_expected_") + gl);
			return e.id;
		}
		for (int g : e.groups) args.push_back(g < (int)m.size() ? m[g].str() : std::string());
		return e.id;
	}
	return -1;
}

static std::string gen_url(rng &r, tree const &t)
{
	// walk down mounts, then instantiate a pattern, then maybe one edit
	std::string url; int node = 0;
	for (int d = 0; d < 4; d++) {
		std::vector<espec const *> mounts;
		for (espec const &e : t.nodes[node].entries) if (e.mount) mounts.push_back(&e);
		if (mounts.empty() || r.chance(1, 2)) break;
		espec const *e = mounts[r.below((uint32_t)mounts.size())];
		url += e->mregex.substr(0, e->mregex.find('('));
		node = e->child;
	}
	int p = r.below(NPATS);
	if (r.chance(2, 3) && !t.nodes[node].entries.empty()) { espec const &e = t.nodes[node].entries[r.below((uint32_t)t.nodes[node].entries.size())]; if (!e.mount) p = e.pat; }
	pat const &P = PATS[p];
	if (has_keyword(P)) url += "/l/" + gen_group(r, 'a') + "/w/" + gen_group(r, 'd');
	else if (P.tmpl) { std::string s = P.tmpl; for (int g = 0; g < (int)strlen(P.glang); g++) { std::string ph = "{" + std::to_string(g + 1) + "}"; size_t at = s.find(ph); if (at != std::string::npos) s.replace(at, ph.size(), gen_group(r, P.glang[g])); } if (p == 7 && r.chance(1, 2)) s += "/opt"; url += s; }
	else { static char const *ex[] = { "/item/", "/item/9/z", "/thing/77", "/alphabet", "/bta", "/betaaa", "/zzz", "/item/5" }; url += ex[r.below(8)]; }
	if (r.chance(1, 3) && true) {
		size_t at = url.empty() ? 0 : r.below((uint32_t)url.size() + 1);
		switch (r.below(7)) {
		case 0: url.insert(0, r.chance(1, 2) ? "/" : "x"); break;
		case 1: url += r.chance(1, 2) ? "/" : "x"; break;
		case 2: url.insert(at, "\n"); break;
		case 3: url += "\n"; break;
		case 4: if (!url.empty()) url.erase(std::min(at, url.size() - 1), 1); break;
		case 5: if (r.chance(1, 4)) url.insert(at, 1, '\0'); else url.insert(at, 1, "/ab1_.%"[r.below(7)]); break;     // also a NUL byte: matching is on the whole string
		default: url = url + url;
		}
	}
	return url;
}

static std::string path_key(tree const &t, int node)
{
	std::string k;
	while (t.nodes[node].parent >= 0) { k = "/" + t.nodes[node].name + k; node = t.nodes[node].parent; }
	return k;
}

static void one_tree(rng &r, long long idx, long long dispatches)
{
	tree t = gen_tree(r);
	cppcms::json::value cfg;
	static cppcms::service *srv = 0;
	if (!srv) srv = new cppcms::service(cfg);
	std::vector<napp *> all(t.nodes.size(), (napp *)0);
	std::unique_ptr<napp> root(new napp(*srv, t, 0, all));
	std::string tj = tree_json(t);
	O().count("trees");
	O().seen("trees", fnv(tj));
	// besides the usual ones: methods that merely contain, start or end with one a filter allows (the filter is a whole-string match)
	static char const *methods[] = { "GET", "POST", "PUT", "DELETE", "PATCH", "get", "HEAD", "XPUT", "PUTX", "DELETED", "OPTIONS", "PROPPATCH", "INPUTS", "FORGET", "OVERHEAD", "XPOST", "COMPUTE", "gets", "" };
	auto route = [&](std::string const &url, std::string const &method, std::string &output) {
		std::map<std::string, std::string> env;
		env["REQUEST_METHOD"] = method; env["PATH_INFO"] = url; env["SCRIPT_NAME"] = ""; env["HTTP_HOST"] = "localhost"; env["SERVER_PROTOCOL"] = "HTTP/1.0";
		output.clear();
		booster::shared_ptr<dummy_api> api(new dummy_api(*srv, env, output));
		booster::shared_ptr<cppcms::http::context> ctx(new cppcms::http::context(api));
		root->assign_context(ctx);
		g_calls.clear();
		root->main(url);
		ctx->response().finalize();
		root->release_context();
	};
	for (long long i = 0; i < dispatches; i++) {
		std::string url = gen_url(r, t);
		std::string method = methods[r.chance(1, 2) ? r.below(7) : r.below(19)];
		std::vector<std::string> want_args;
		int want = model_dispatch(t, 0, url, method, want_args);
		std::string out;
		route(url, method, out);
		O().count("dispatches");
		if (want >= 0) O().count("dispatches_matched"); else O().count("dispatches_404");
		std::string rp = "{\"tree\":" + tj + ",\"url\":" + jstr(url) + ",\"method\":\"" + method + "\"}";
		if (g_calls.size() > 1) { O().viol("route:more-than-one-handler-ran", url, rp); continue; }
		if (want < 0) {
			if (!g_calls.empty()) O().viol("route:handler-ran-for-url-nothing-matches", "url=" + jstr(url) + " got handler " + std::to_string(g_calls[0].id), rp);
			else if (out.find("404") == std::string::npos) O().viol("route:no-match-but-no-404", out.substr(0, 120), rp);
			continue;
		}
		if (g_calls.empty()) { O().viol("route:matching-url-not-routed", "url=" + jstr(url) + " expected handler " + std::to_string(want), rp); continue; }
		if (g_calls[0].id != want) { O().viol("route:routed-to-wrong-handler", "url=" + jstr(url) + " expected " + std::to_string(want) + " got " + std::to_string(g_calls[0].id), rp); continue; }
		if (g_calls[0].args != want_args) { std::string a; for (auto const &x : g_calls[0].args) a += "[" + x + "]"; std::string b; for (auto const &x : want_args) b += "[" + x + "]"; O().viol("route:wrong-captured-arguments", "url=" + jstr(url) + " got " + a + " want " + b, rp); }
		if (idx == 0 && i < 2) O().sample("{\"url\":" + jstr(url) + ",\"method\":\"" + method + "\",\"handler\":" + std::to_string(want) + "}");
	}
	// mapper round trip
	for (size_t ni = 0; ni < t.nodes.size(); ni++) for (espec const &e : t.nodes[ni].entries) {
		if (e.mount || e.key.empty()) continue;
		pat const &P = PATS[e.pat];
		std::vector<std::string> params;
		for (size_t g = 0; g < strlen(P.glang); g++) params.push_back(gen_group(r, P.glang[g]));
		// number of template parameters = highest {n}
		int np = 0; for (int g = 1; g <= 6; g++) if (std::string(P.tmpl).find("{" + std::to_string(g) + "}") != std::string::npos) np = g;
		params.resize(np);
		bool kw = has_keyword(P);
		std::string lang = gen_group(r, 'a');
		if (kw) params[0] = gen_group(r, 'd');
		for (int form = 0; form < 3; form++) {
			// absolute key from the root, relative key from the node itself, and via ".." from a child of the node (when it has one)
			napp *from = all[0]; std::string key;
			if (form == 0) key = path_key(t, (int)ni) + "/" + e.key;
			else if (form == 1) { from = all[ni]; key = e.key; }
			else { int child = -1; for (espec const &c : t.nodes[ni].entries) if (c.mount) child = c.child; if (child < 0) continue; from = all[child]; key = "../" + e.key; }
			std::ostringstream ss;
			bool by_value = kw && r.chance(1, 2);
			try {
				if (kw) {
					// the keyword comes from the root mapper's helper values, or is named after ';' and passed first
					if (by_value) { all[0]->mapper().set_value("lang", lang); from->mapper().map(ss, key, params[0]); all[0]->mapper().clear_value("lang"); }
					else from->mapper().map(ss, key + ";lang", lang, params[0]);
					O().count(by_value ? "mapper_keyword_by_set_value" : "mapper_keyword_in_key");
				}
				else switch (np) {
				case 0: from->mapper().map(ss, key); break;
				case 1: from->mapper().map(ss, key, params[0]); break;
				case 2: from->mapper().map(ss, key, params[0], params[1]); break;
				case 6: from->mapper().map(ss, key, params[0], params[1], params[2], params[3], params[4], params[5]); break;
				default: continue;
				}
			} catch (std::exception const &ex) { O().viol("route:mapper-threw-for-registered-key", key + ": " + ex.what(), "{\"tree\":" + tj + ",\"key\":" + jstr(key) + "}"); continue; }
			std::string url = ss.str();
			O().count("mapper_urls");
			std::vector<std::string> want_args;
			int want = model_dispatch(t, 0, url, "GET", want_args);
			if (want != e.id) { O().count("mapper_urls_shadowed_by_configuration"); continue; }  // an earlier entry (or a method filter) takes this URL: the configuration decides, not the library
			std::string out;
			route(url, "GET", out);
			std::string rp = "{\"tree\":" + tj + ",\"key\":" + jstr(key) + ",\"url\":" + jstr(url) + "}";
			if (g_calls.size() != 1 || g_calls[0].id != e.id) { O().viol("route:mapped-url-does-not-reach-its-handler", "key=" + key + " url=" + url, rp); continue; }
			// the handler must see the same parameters (for the identity group selection)
			bool identity = (int)e.groups.size() == P.ngroups; for (size_t g = 0; g < e.groups.size() && identity; g++) if (e.groups[g] != (int)g + 1) identity = false;
			if (e.style == 0 && identity && np == P.ngroups && g_calls[0].args != params) O().viol("route:mapped-url-parameters-differ", "key=" + key + " url=" + url, rp);
			if (kw && e.style == 0 && identity && g_calls[0].args != std::vector<std::string>({ lang, params[0] })) O().viol("route:mapped-url-parameters-differ", "keyword parameter: key=" + key + " url=" + url + " lang=" + lang, rp);
			O().count("mapper_roundtrips");
		}
	}
}

// ------------------------------------------------------------------ mount_point::match
static void mount_points(rng &r, long long n)
{
	static char const *res[] = { "", "/app", "/app(/.*)?", "(/[a-z]+)(/.*)?", ".*", "/a|/ab", "www\\.example\\.com", "(.*\\.)?example\\.com", "/foo/(\\d+)", "/(\\w+)" };
	static char const *strs[] = { "", "/", "/app", "/app/", "/app/x/y", "/apple", "/a", "/ab", "/abc", "www.example.com", "example.com", "wwwXexample.com", "evil.com/www.example.com", "/foo/12", "/foo/12/", "x/foo/12", "/foo/12\n", "/bar", "/app\n" };
	for (long long i = 0; i < n; i++) {
		std::string hre = r.chance(1, 2) ? "" : res[6 + r.below(2)], sre = res[r.below(10)], pre = res[r.below(10)];
		int group = r.below(3);
		bool sel_path = r.chance(1, 2);
		// the selected regex must have enough groups
		std::string const &selre = sel_path ? pre : sre;
		int ngroups = 0; for (size_t k = 0; k < selre.size(); k++) if (selre[k] == '(' && (k == 0 || selre[k - 1] != '\\')) ngroups++;
		if (group > ngroups) group = ngroups;
		cppcms::mount_point mp(sel_path ? cppcms::mount_point::match_path_info : cppcms::mount_point::match_script_name, booster::regex(hre), booster::regex(sre), booster::regex(pre), group);
		if (hre.empty()) mp.host(booster::regex());
		if (sre.empty()) mp.script_name(booster::regex());
		if (pre.empty()) mp.path_info(booster::regex());
		for (int k = 0; k < 12; k++) {
			std::string h = strs[9 + r.below(4)], s = strs[r.below(19)], p = strs[r.below(19)];
			std::pair<bool, std::string> got = mp.match(h, s, p);
			// model
			bool ok = true; std::string sel;
			if (!hre.empty() && !std::regex_match(h, cre(hre))) ok = false;
			std::string const &selected = sel_path ? p : s; std::string const &other = sel_path ? s : p; std::string const &otherre = sel_path ? sre : pre;
			if (ok && !otherre.empty() && !std::regex_match(other, cre(otherre))) ok = false;
			if (ok) {
				if (selre.empty()) sel = selected;
				else { std::smatch m; if (!std::regex_match(selected, m, cre(selre))) ok = false; else sel = group == 0 ? selected : m[group].str(); }
			}
			O().count("mount_point_matches");
			if (ok) O().count("mount_point_accepts");
			std::string rp = "{\"host_re\":" + jstr(hre) + ",\"script_re\":" + jstr(sre) + ",\"path_re\":" + jstr(pre) + ",\"group\":" + std::to_string(group) + ",\"select_path\":" + (sel_path ? "true" : "false") + ",\"host\":" + jstr(h) + ",\"script\":" + jstr(s) + ",\"path\":" + jstr(p) + "}";
			if (got.first != ok) O().viol(ok ? "route:mount-point-rejects-matching-request" : "route:mount-point-accepts-partial-match", rp, rp);
			else if (ok && got.second != sel) O().viol("route:mount-point-selects-wrong-part", "got " + jstr(got.second) + " want " + jstr(sel) + " " + rp, rp);
		}
	}
}

int main(int argc, char **argv)
{
	args a(argc, argv);
	rng r(a.num("seed", 1));
	long long trees = a.num("trees", 50), per = a.num("dispatches", 100);
	for (long long i = 0; i < trees && O().viol_count < 10; i++) one_tree(r, i, per);
	mount_points(r, a.num("mounts", 500));
	finish(a);
	return O().viol_count ? 1 : 0;
}
