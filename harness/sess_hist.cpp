// C06 monitor: session histories. Simulated browsers (cookie jars under a virtual clock) and an
// adversary replaying/forging session cookies talk to session_interface over a shared session_pool;
// an executable model holds what each browser's session must look like (deadline as an envelope).
#include "common/vh.h"
#include "common/clock_shim.h"
#include <cppcms/session_interface.h>
#include <cppcms/session_pool.h>
#include <cppcms/session_storage.h>
#include <cppcms/http_cookie.h>
#include <cppcms/json.h>
#include "session_memory_storage.h"
#include "session_posix_file_storage.h"
#include "session_tcp_storage.h"
#include "tcp_cache_server.h"
#include "cache_storage.h"
#include <sys/socket.h>
#include <netinet/in.h>
#include <fcntl.h>
#include <stdarg.h>
#include <unistd.h>
#include <sys/syscall.h>
#include <sys/stat.h>
#include <dirent.h>
#include <memory>

using namespace vh;
namespace sess = cppcms::sessions;

// ---------------------------------------------------------------- /dev/urandom provenance shim
static int g_urandom_fd = -1;
static std::string g_entropy;          // bytes handed out since the last session id was issued
static std::vector<std::string> g_paths;
static std::string g_dir;
extern "C" int open(const char *path, int flags, ...)
{
	mode_t mode = 0;
	if (flags & O_CREAT) { va_list ap; va_start(ap, flags); mode = (mode_t)va_arg(ap, int); va_end(ap); }
	int fd = (int)syscall(SYS_openat, AT_FDCWD, path, flags, mode);
	if (fd >= 0 && strcmp(path, "/dev/urandom") == 0) g_urandom_fd = fd;
	if (!g_dir.empty() && strncmp(path, g_dir.c_str(), g_dir.size()) == 0) g_paths.push_back(path);
	return fd;
}
extern "C" int close(int fd) { if (fd == g_urandom_fd) g_urandom_fd = -1; return (int)syscall(SYS_close, fd); }
extern "C" ssize_t read(int fd, void *buf, size_t n)
{
	ssize_t r = syscall(SYS_read, fd, buf, n);
	if (fd == g_urandom_fd && fd >= 0 && r > 0) g_entropy.append((char const *)buf, (size_t)r);
	return r;
}
extern "C" int unlink(const char *path) { if (!g_dir.empty() && strncmp(path, g_dir.c_str(), g_dir.size()) == 0) g_paths.push_back(path); return (int)syscall(SYS_unlinkat, AT_FDCWD, path, 0); }

// ---------------------------------------------------------------- logging storage wrapper
static bool issued_form(std::string const &k) { if (k.size() != 32) return false; for (char c : k) if (!((c >= '0' && c <= '9') || (c >= 'a' && c <= 'f'))) return false; return true; }
static long long g_storage_calls = 0;
struct logging_storage : public sess::session_storage {
	booster::shared_ptr<sess::session_storage> in;
	explicit logging_storage(booster::shared_ptr<sess::session_storage> s) : in(s) {}
	void chk(std::string const &k, char const *op) { g_storage_calls++; if (!issued_form(k)) O().viol("session:storage-addressed-with-id-not-of-issued-form", std::string(op) + " " + hex(k.substr(0, 80))); }
	void save(std::string const &sid, time_t t, std::string const &d) override { chk(sid, "save"); in->save(sid, t, d); }
	bool load(std::string const &sid, time_t &t, std::string &d) override { chk(sid, "load"); return in->load(sid, t, d); }
	void remove(std::string const &sid) override { chk(sid, "remove"); in->remove(sid); }
	bool is_blocking() override { return in->is_blocking(); }
};
struct logging_factory : public sess::session_storage_factory {
	std::unique_ptr<sess::session_storage_factory> in; booster::shared_ptr<sess::session_storage> st;
	explicit logging_factory(std::unique_ptr<sess::session_storage_factory> f) : in(std::move(f)) { st.reset(new logging_storage(in->get())); }
	booster::shared_ptr<sess::session_storage> get() override { return st; }
	bool requires_gc() override { return in->requires_gc(); }
	void gc_job() override { in->gc_job(); }
};

// ---------------------------------------------------------------- cookie jar
struct jcookie { std::string value; long expires; bool session_cookie; };
struct jar : public cppcms::session_interface_cookie_adapter {
	std::map<std::string, jcookie> cookies;
	std::vector<std::string> log;
	void set_cookie(cppcms::http::cookie const &c) override {
		long now = vclock::now();
		bool del = (c.max_age_defined() && c.max_age() == 0) || (!c.max_age_defined() && c.expires_defined() && c.expires() <= now) || c.value().empty();
		log.push_back((del ? "del " : "set ") + c.name());
		if (del) { cookies.erase(c.name()); return; }
		jcookie j; j.value = c.value(); j.session_cookie = !c.max_age_defined() && !c.expires_defined();
		j.expires = c.max_age_defined() ? now + (long)c.max_age() : (c.expires_defined() ? (long)c.expires() : 0);
		cookies[c.name()] = j;
	}
	bool alive(jcookie const &c) const { return c.session_cookie || vclock::now() < c.expires; }
	std::string get_session_cookie(std::string const &name) override { auto p = cookies.find(name); return (p == cookies.end() || !alive(p->second)) ? std::string() : p->second.value; }
	std::set<std::string> get_cookie_names() override { std::set<std::string> s; for (auto const &c : cookies) if (alive(c.second)) s.insert(c.first); return s; }
	std::set<std::string> expired_names;
	void expire_now() { for (auto it = cookies.begin(); it != cookies.end();) if (!alive(it->second)) { expired_names.insert(it->first); it = cookies.erase(it); } else ++it; }
};

// ---------------------------------------------------------------- model
enum { FIXED = 0, RENEW = 1, BROWSER = 2 };
struct mval { std::string value; bool exposed; };
struct msession {
	bool exists;
	std::map<std::string, mval> data;      // user keys
	bool has_t, has_h, has_s; int st_age, st_how; bool st_on_server;    // stored control keys
	long dmin, dmax;                       // the server-side deadline lies in [dmin, dmax]
	std::string sid;                       // when kept on the server
	char kind;                             // 'C' or 'I'
	msession() : exists(false), has_t(false), has_h(false), has_s(false), st_age(0), st_how(0), st_on_server(false), dmin(0), dmax(0), kind('?') {}
	bool same_stored(msession const &o) const {
		if (data.size() != o.data.size() || has_t != o.has_t || has_h != o.has_h || has_s != o.has_s) return false;
		if ((has_t && st_age != o.st_age) || (has_h && st_how != o.st_how) || (has_s && st_on_server != o.st_on_server)) return false;
		auto i = data.begin(); auto j = o.data.begin();
		for (; i != data.end(); ++i, ++j) if (i->first != j->first || i->second.value != j->second.value || i->second.exposed != j->second.exposed) return false;
		return true;
	}
};
struct browser { int id; jar j; msession m; };

struct world {
	std::string location, storage; int def_how, def_age; unsigned limit;
	std::unique_ptr<cppcms::session_pool> pool;
	std::vector<std::unique_ptr<browser> > browsers;
	std::set<std::string> revoked, all_sids;
	std::vector<std::string> trace;
	std::string prefix;
};
static std::string my_urlencode(std::string const &s) { std::string o; for (unsigned char c : s) { if (isalnum(c) || c == '-' || c == '_' || c == '.' || c == '~') o += (char)c; else { char b[8]; snprintf(b, sizeof b, "%%%02x", c); o += b; } } return o; }
static std::string lowerhex(std::string s) { for (auto &c : s) c = (char)tolower((unsigned char)c); return s; }

static void viol(world &w, std::string const &key, std::string const &detail)
{
	std::string t = "[";
	size_t from = w.trace.size() > 40 ? w.trace.size() - 40 : 0;
	for (size_t i = from; i < w.trace.size(); i++) { if (i > from) t += ","; t += jstr(w.trace[i]); }
	t += "]";
	O().viol(key, detail + " [location=" + w.location + " storage=" + w.storage + " expire=" + std::to_string(w.def_how) + " age=" + std::to_string(w.def_age) + "]",
		"{\"location\":\"" + w.location + "\",\"storage\":\"" + w.storage + "\",\"expire\":" + std::to_string(w.def_how) + ",\"age\":" + std::to_string(w.def_age) + ",\"trace\":" + t + "}");
}

static int eff_age(world const &w, msession const &m) { return m.has_t ? m.st_age : w.def_age; }
static int eff_how(world const &w, msession const &m) { return m.has_h ? m.st_how : w.def_how; }

// one honest request by browser b
static void request(world &w, browser &b, rng &r)
{
	long now = vclock::now();
	b.j.expire_now();
	msession &m = b.m;
	std::string cookie_before = b.j.get_session_cookie(w.prefix);
	// ---- expectation
	int expect = 0;   // 1 must exist, -1 must not, 0 either
	if (!m.exists) expect = -1;
	else if (cookie_before.empty()) { expect = -1; }
	else expect = now <= m.dmin ? 1 : (now > m.dmax ? -1 : 0);
	cppcms::session_interface si(*w.pool, b.j);
	std::string req = "b" + std::to_string(b.id) + "@" + std::to_string(now - 1700000000L) + ": ";
	bool loaded;
	try { loaded = si.load(); } catch (std::exception const &e) { w.trace.push_back(req + "load threw"); viol(w, "session:load-threw", e.what()); return; }
	O().count("requests");
	std::set<std::string> keys = si.key_set();
	bool observed = loaded;
	if (observed && expect == -1) { w.trace.push_back(req + "load"); viol(w, m.exists ? "session:state-survived-its-deadline-or-lost-cookie" : "session:ended-session-readable-again", "browser " + std::to_string(b.id)); return; }
	if (!observed && expect == 1) { w.trace.push_back(req + "load"); viol(w, "session:state-lost-before-its-deadline", "browser " + std::to_string(b.id)); return; }
	if (expect == 0) O().count("requests_in_envelope_gap");
	if (!observed) { std::string pre0 = w.prefix + "_"; for (auto const &cn : b.j.get_cookie_names()) if (cn.size() > pre0.size() && cn.compare(0, pre0.size(), pre0) == 0) O().count("stale_exposed_cookies_at_ended_session"); }
	if (!observed) { if (m.exists && m.kind == 'I') { /* orphan on the server, not revoked */ } m = msession(); if (!keys.empty()) { viol(w, "session:empty-session-has-keys", ""); return; } }
	else {
		O().count("loads_with_session");
		// exact contents
		std::set<std::string> want; for (auto const &d : m.data) want.insert(d.first);
		if (keys != want) { w.trace.push_back(req + "load"); viol(w, "session:key-set-differs-from-previous-request", "browser " + std::to_string(b.id)); return; }
		for (auto const &d : m.data) {
			std::string v = si.get(d.first);
			if (d.first.compare(0, 2, "t_") == 0) {
				// values stored through the typed convenience calls set<T>() come back through get<T>()
				std::string back;
				try {
					if (d.first == "t_int") back = std::to_string(si.get<int>(d.first));
					else if (d.first == "t_char") back = std::string(1, si.get<char>(d.first));
					else if (d.first == "t_uchar") back = std::string(1, (char)si.get<unsigned char>(d.first));
					else back = std::to_string(si.get<long long>(d.first));
				} catch (std::exception const &e) { w.trace.push_back(req + "load"); viol(w, "session:typed-value-not-readable-as-it-was-stored", d.first + " stored as '" + v + "': " + e.what()); return; }
				if (back != d.second.value || v != d.second.value) { w.trace.push_back(req + "load"); viol(w, "session:value-differs-from-previous-request", d.first); return; }
				O().count("typed_values_read_back");
				if (si.is_exposed(d.first) != d.second.exposed) { w.trace.push_back(req + "load"); viol(w, "session:exposed-flag-differs", d.first); return; }
				continue;
			}
			if (v.compare(0, 3, "b" + std::to_string(b.id) + ":") != 0) { viol(w, "session:value-of-another-browser", d.first + "=" + v.substr(0, 30)); return; }
			if (v != d.second.value) { w.trace.push_back(req + "load"); viol(w, "session:value-differs-from-previous-request", d.first); return; }
			if (si.is_exposed(d.first) != d.second.exposed) { w.trace.push_back(req + "load"); viol(w, "session:exposed-flag-differs", d.first); return; }
		}
		if (si.age() != eff_age(w, m)) { w.trace.push_back(req + "load"); viol(w, "session:age-differs", std::to_string(si.age()) + " vs " + std::to_string(eff_age(w, m))); return; }
		if (si.expiration() != eff_how(w, m)) { w.trace.push_back(req + "load"); viol(w, "session:expiration-mode-differs", std::to_string(si.expiration())); return; }
		if (si.on_server() != (m.has_s ? m.st_on_server : false)) { w.trace.push_back(req + "load"); viol(w, "session:on-server-flag-differs", ""); return; }
	}
	// ---- operations, mirrored on the model's next state
	msession n = m;
	int mem_age = observed ? eff_age(w, m) : w.def_age, mem_how = observed ? eff_how(w, m) : w.def_how; bool mem_srv = observed ? (m.has_s ? m.st_on_server : false) : false;
	bool reset = false;
	int nops = r.chance(1, 4) ? 0 : r.range(1, 4);
	bool fresh = !observed;
	std::set<std::string> removed_now;
	for (int i = 0; i < nops; i++) {
		static char const *kk[] = { "k1", "k2", "k3", "key with space", "k\xc3\xa9" };
		std::string k = kk[r.below(5)];
		int op = r.below(100);
		if (op < 38 && r.chance(1, 7)) {
			std::string v;
			switch (r.below(4)) {
			case 0: { int x = (int)r.range(-100000, 100000); si.set<int>("t_int", x); k = "t_int"; v = std::to_string(x); break; }
			case 1: { char c = (char)r.range('!', '~'); si.set<char>("t_char", c); k = "t_char"; v = std::string(1, c); break; }
			case 2: { unsigned char c = (unsigned char)r.range('!', '~'); si.set<unsigned char>("t_uchar", c); k = "t_uchar"; v = std::string(1, (char)c); break; }
			default: { long long x = (long long)r.next() >> (r.below(40) + 1); if (r.chance(1, 2)) x = -x; si.set<long long>("t_ll", x); k = "t_ll"; v = std::to_string(x); }
			}
			n.data[k].value = v; if (!n.data.count(k)) n.data[k].exposed = false; req += "set<T>(" + k + ");";
			O().count("typed_values_set");
		}
		else if (op < 38) {
			size_t len = r.chance(1, 6) ? r.range(150, 400) : r.below(20);
			std::string v = "b" + std::to_string(b.id) + ":" + std::to_string(now % 100000) + ":" + std::string(len, (char)('a' + r.below(26)));
			if (r.chance(1, 8)) v += std::string("\0;=\"%+ \r\n", 9);
			si.set(k, v); n.data[k].value = v; if (!n.data.count(k)) n.data[k].exposed = false; req += "set(" + k + ");";
		}
		else if (op < 48) { si.erase(k); if (n.data.count(k)) removed_now.insert(k); n.data.erase(k); req += "erase(" + k + ");"; }
		else if (op < 53) { si.clear(); for (auto const &d : n.data) removed_now.insert(d.first); n.data.clear(); n.has_t = n.has_h = n.has_s = false; req += "clear();"; }
		else if (op < 63) { if (n.data.count(k)) { si.expose(k); n.data[k].exposed = true; req += "expose(" + k + ");"; } }
		else if (op < 69) { if (n.data.count(k)) { si.hide(k); n.data[k].exposed = false; req += "hide(" + k + ");"; } }
		else if (op < 77) { if (mem_how != FIXED || fresh || reset) { int a = (int[]){ 10, 40, 100, 1000 }[r.below(4)]; si.age(a); n.has_t = true; n.st_age = a; mem_age = a; req += "age(" + std::to_string(a) + ");"; } }
		else if (op < 80) { if (mem_how != FIXED || fresh || reset) { si.default_age(); n.has_t = false; mem_age = w.def_age; req += "default_age();"; } }
		else if (op < 86) { int h = r.below(3); bool ok = fresh || reset || (mem_how != FIXED && h != FIXED); if (ok) { si.expiration(h); n.has_h = true; n.st_how = h; mem_how = h; req += "expiration(" + std::to_string(h) + ");"; } }
		else if (op < 88) { if (fresh || reset || (mem_how != FIXED && w.def_how != FIXED)) { si.default_expiration(); n.has_h = false; mem_how = w.def_how; req += "default_expiration();"; } }
		else if (op < 94) { if (w.location == "both") { bool s = r.chance(1, 2); si.on_server(s); n.has_s = true; n.st_on_server = s; mem_srv = s; req += std::string("on_server(") + (s ? "1" : "0") + ");"; } }
		else { si.reset_session(); reset = true; req += "reset_session();"; }
	}
	g_entropy.clear();
	b.j.log.clear();
	b.j.expire_now();
	try { si.save(); } catch (std::exception const &e) { w.trace.push_back(req + "save threw"); viol(w, "session:save-threw", e.what()); return; }
	req += "save";
	w.trace.push_back(req);
	// a request that found no session (deadline passed, cookie lost or refused) starts from nothing: whatever it leaves behind,
	// no exposed cookie of the ended session may stay in the browser (remove_unknown_cookies is at its default, on)
	if (!observed) {
		std::set<std::string> names = b.j.get_cookie_names();
		std::string pre = w.prefix + "_";
		for (auto const &cn : names) {
			if (cn.size() <= pre.size() || cn.compare(0, pre.size(), pre) != 0) continue;
			std::string k = cn.substr(pre.size());
			auto q = n.data.find(k);
			if (q == n.data.end() || !q->second.exposed) { viol(w, "session:exposed-cookie-outlives-its-ended-session", k); return; }
		}
		O().count("ended_session_exposed_checks");
	}
	// ---- after save
	bool n_empty = n.data.empty() && !n.has_t && !n.has_h && !n.has_s;
	std::string cookie_after = b.j.get_session_cookie(w.prefix);
	if (n_empty) {
		if (!cookie_after.empty()) { viol(w, "session:cookie-kept-after-session-cleared", ""); return; }
		if (m.exists && m.kind == 'I' && !m.sid.empty()) w.revoked.insert(m.sid);
		for (auto const &d : m.data) if (d.second.exposed && b.j.cookies.count(w.prefix + "_" + d.first)) { viol(w, "session:exposed-cookie-kept-after-session-cleared", d.first); return; }
		m = msession();
		O().count("sessions_ended");
		return;
	}
	bool is_new = !m.exists || reset;
	if (cookie_after.empty()) { viol(w, "session:no-session-cookie-after-save", ""); return; }
	char kind = cookie_after[0];
	if (w.location == "client" && kind != 'C') { viol(w, "session:wrong-cookie-kind", cookie_after.substr(0, 8)); return; }
	if (w.location == "server" && kind != 'I') { viol(w, "session:wrong-cookie-kind", cookie_after.substr(0, 8)); return; }
	bool cookie_reset = false; for (auto const &l : b.j.log) if (l == "set " + w.prefix) cookie_reset = true;
	if (w.location == "both" && cookie_reset) {
		size_t sz = 0; for (auto const &d : n.data) sz += 4 + d.first.size() + d.second.value.size();
		if (mem_srv && kind != 'I') { viol(w, "session:on-server-session-kept-in-cookie", ""); return; }
		if (!mem_srv && sz + 40 < w.limit && kind != 'C') { viol(w, "session:small-session-not-kept-in-cookie", std::to_string(sz)); return; }
		if (!mem_srv && sz > w.limit + 40 && kind != 'I') { viol(w, "session:oversized-session-kept-in-cookie", std::to_string(sz)); return; }
		O().count(kind == 'I' ? "both_saved_on_server" : "both_saved_in_cookie");
	}
	std::string sid = kind == 'I' ? cookie_after.substr(1) : std::string();
	if (kind == 'I') {
		if (!issued_form(sid)) { viol(w, "session:issued-id-malformed", sid); return; }
		bool same_as_before = m.exists && m.kind == 'I' && m.sid == sid;
		if (is_new && same_as_before) { viol(w, "session:reset-or-new-session-kept-old-id", sid); return; }
		if (!same_as_before) {
			if (w.all_sids.count(sid)) { viol(w, "session:issued-id-was-used-before", sid); return; }
			// provenance: the id is the hex of 16 bytes read from /dev/urandom during this save
			bool prov = false;
			for (size_t off = 0; off + 16 <= g_entropy.size(); off++) if (hex(g_entropy.substr(off, 16)) == sid) prov = true;
			if (!prov) { viol(w, "session:issued-id-not-from-system-entropy", sid); return; }
			O().count("ids_issued");
			w.all_sids.insert(sid);
			if (m.exists && m.kind == 'I' && !m.sid.empty()) w.revoked.insert(m.sid);
		}
	} else if (m.exists && m.kind == 'I' && !m.sid.empty()) w.revoked.insert(m.sid);     // moved from the server into the cookie
	// exposed cookies in step with the session
	for (auto const &d : n.data) {
		std::string cn = w.prefix + "_" + d.first;
		auto p = b.j.cookies.find(cn);
		if (d.second.exposed) {
			if (p == b.j.cookies.end() && b.j.expired_names.count(cn)) { viol(w, "session:exposed-cookie-expired-before-its-session", d.first + " (its Max-Age was not refreshed when the session's deadline moved)"); return; }
			if (p == b.j.cookies.end() || lowerhex(p->second.value) != lowerhex(my_urlencode(d.second.value))) { viol(w, "session:exposed-value-missing-or-wrong-in-cookie", d.first); return; }
			O().count("exposed_cookie_checks");
		}
		else if (p != b.j.cookies.end()) { viol(w, "session:hidden-value-still-in-cookie", d.first); return; }
	}
	for (auto const &k : removed_now) if (!n.data.count(k) && b.j.cookies.count(w.prefix + "_" + k)) { viol(w, "session:erased-value-still-in-cookie", k); return; }
	// commit: where the deadline is now
	n.exists = true; n.kind = kind; n.sid = sid;
	bool changed = is_new || !m.same_stored(n);
	if (is_new || (changed && mem_how != FIXED)) { n.dmin = n.dmax = now + mem_age; }                 // saved: fixed counts from creation, renew/browser from every save
	else if (mem_how == FIXED) { n.dmin = std::max(m.dmin, now); n.dmax = m.dmax; }                         // fixed: later saves must not move it
	else { n.dmin = std::max(std::max(m.dmin, now), now + (long)(0.9 * mem_age) - 1); n.dmax = std::max(m.dmax, now + mem_age); }   // unchanged: re-saved unless within the first 10 % of the period
	if (n.dmin > n.dmax) n.dmin = n.dmax;
	m = n;
}

// adversary: presents revoked, malformed and path-like identifiers
static void attack(world &w, rng &r)
{
	jar j;
	std::string cv; std::string what;
	int k = r.below(10);
	if (k < 4 && !w.revoked.empty()) { auto it = w.revoked.begin(); std::advance(it, r.below((uint32_t)w.revoked.size())); cv = "I" + *it; what = "revoked id"; }
	else {
		static char const *bad[] = { "I../../../../etc/passwd", "I0123456789abcdef0123456789abcde", "I0123456789abcdef0123456789abcdef0", "I0123456789ABCDEF0123456789ABCDEF", "I0123456789abcdef0123456789abcde/", "I", "Ig123456789abcdef0123456789abcdef",
			"I................................", "I0123456789abcdef0123456789abcdef\n", "X0123456789abcdef0123456789abcdef", "i0123456789abcdef0123456789abcdef", "I/tmp/x", "I%2e%2e%2f%2e%2e%2f%2e%2e%2f%2e%2e%2fetc" };
		cv = bad[r.below(13)]; what = "malformed id";
		if (r.chance(1, 6)) { cv = "I" + std::string(32, 'a'); cv[1 + r.below(32)] = (char)r.byte(); }
		if (r.chance(1, 8)) cv = std::string("I0123456789abcdef0123456789abcde\0f", 34);
	}
	jcookie c; c.value = cv; c.session_cookie = true; c.expires = 0;
	j.cookies[w.prefix] = c;
	cppcms::session_interface si(*w.pool, j);
	bool loaded = false;
	w.trace.push_back("adversary presents " + what + " " + cv.substr(0, 40));
	try { loaded = si.load(); } catch (std::exception const &e) { viol(w, "session:load-threw", std::string("adversary: ") + e.what()); return; }
	O().count("adversary_requests");
	if (loaded || !si.key_set().empty()) { viol(w, what == "revoked id" ? "session:revoked-id-still-usable" : "session:malformed-id-accepted", cv.substr(0, 60)); return; }
	if (r.chance(1, 2)) {
		// session fixation attempt: store something under the presented id
		si.set("k1", "bA:fixation");
		g_entropy.clear();
		try { si.save(); } catch (std::exception const &e) { viol(w, "session:save-threw", std::string("adversary: ") + e.what()); return; }
		std::string after = j.get_session_cookie(w.prefix);
		if (!after.empty() && after[0] == 'I') {
			std::string sid = after.substr(1);
			if (after == cv) { viol(w, "session:attacker-chosen-id-adopted", cv.substr(0, 60)); return; }
			if (!issued_form(sid) || w.all_sids.count(sid)) { viol(w, "session:issued-id-malformed-or-reused", sid); return; }
			w.all_sids.insert(sid);
			O().count("fixation_attempts");
		}
	}
}

static int free_port()
{
	static rng pr((uint64_t)getpid() * 7919u + 13);
	for (int i = 0; i < 200; i++) {
		int p = 10000 + (int)pr.below(20000);
		int s = socket(AF_INET, SOCK_STREAM, 0);
		sockaddr_in a; memset(&a, 0, sizeof a); a.sin_family = AF_INET; a.sin_port = htons(p); a.sin_addr.s_addr = htonl(INADDR_LOOPBACK);
		int ok = bind(s, (sockaddr *)&a, sizeof a);
		syscall(SYS_close, s);
		if (ok == 0) return p;
	}
	return 0;
}
static void run_world(rng &r, long long idx, long long nreq)
{
	world w;
	static char const *locs[] = { "client", "server", "both" };
	static char const *hows[] = { "fixed", "renew", "browser" };
	w.location = locs[r.below(3)];
	w.storage = w.location == "client" ? "none" : (char const *[]){ "memory", "files", "network" }[r.below(3)];
	w.def_how = r.below(3); w.def_age = (int[]){ 20, 100, 1000 }[r.below(3)];
	w.limit = 200; w.prefix = "sx";
	cppcms::json::value cfg;
	cfg["session"]["location"] = w.location;
	cfg["session"]["expire"] = hows[w.def_how];
	cfg["session"]["timeout"] = w.def_age;
	cfg["session"]["cookies"]["prefix"] = w.prefix;
	cfg["session"]["client_size_limit"] = (int)w.limit;
	if (w.location != "server") {
		if (r.chance(1, 2)) { cfg["session"]["client"]["encryptor"] = r.chance(1, 2) ? "hmac" : "aes"; cfg["session"]["client"]["key"] = "00112233445566778899aabbccddeeff"; }
		else { cfg["session"]["client"]["hmac"] = "sha256"; cfg["session"]["client"]["hmac_key"] = "00112233445566778899aabbccddeeff"; cfg["session"]["client"]["cbc"] = "aes128"; cfg["session"]["client"]["cbc_key"] = "ffeeddccbbaa99887766554433221100"; }
	}
	std::string dir;
	std::unique_ptr<cppcms::impl::tcp_cache_service> netsrv;
	w.pool.reset(new cppcms::session_pool(cfg));
	if (w.location != "client") {
		cfg["session"]["server"]["storage"] = w.storage;
		std::unique_ptr<sess::session_storage_factory> f;
		if (w.storage == "memory") f.reset(new sess::session_memory_storage_factory());
		else if (w.storage == "network") {
			// a real tcp_cache_service on loopback keeps the sessions (memory storage behind it); the application side talks to it through tcp_factory
			int port = free_port();
			booster::shared_ptr<sess::session_storage_factory> behind(new sess::session_memory_storage_factory());
			netsrv.reset(new cppcms::impl::tcp_cache_service(cppcms::impl::thread_cache_factory(0), behind, 1, "127.0.0.1", port));
			std::vector<std::string> ips(1, "127.0.0.1"); std::vector<int> ports(1, port);
			f.reset(new sess::tcp_factory(ips, ports));
		}
		else { dir = g_dir + "/w" + std::to_string(idx); f.reset(new sess::session_file_storage_factory(dir, 2, 1, false)); }
		w.pool->storage(std::unique_ptr<sess::session_storage_factory>(new logging_factory(std::move(f))));
	}
	w.pool->init();
	// some worlds live after 19 January 2038 (deadlines do not fit 31 bits any more), one in twelve just before it
	vclock::now() = r.chance(1, 6) ? 2200000000L : (r.chance(1, 10) ? 2147483647L - r.range(0, 2000) : 1700000000L);
	O().count(vclock::now() > 2147483647L ? "worlds_after_2038" : "worlds_before_2038");
	int nb = r.range(1, 4);
	for (int i = 0; i < nb; i++) { w.browsers.push_back(std::unique_ptr<browser>(new browser())); w.browsers[i]->id = i; }
	O().count("worlds");
	O().count("worlds_storage_" + w.storage);
	O().count("worlds_location_" + w.location);
	O().seen("worlds", mix(mix(fnv(w.location), fnv(w.storage)), (uint64_t)(w.def_how * 10 + nb) * 4096 + w.def_age));
	int viol_before = O().viol_count;
	for (long long i = 0; i < nreq && O().viol_count == viol_before; i++) {
		browser &b = *w.browsers[r.below((uint32_t)nb)];
		// cookies this application never set, under names next to its own (set by another application of the site, or injected):
		// "<prefix>_" (an exposed value with an empty key), "<prefix>_zzz" (unknown key), "<prefix>x"
		if (r.chance(1, 20)) { static char const *suffix[] = { "_", "_zzz", "x", "_" }; jcookie j; j.value = "stray"; j.expires = 0; j.session_cookie = true; std::string nm = w.prefix + suffix[r.below(4)]; b.j.cookies[nm] = j; w.trace.push_back("browser " + std::to_string(b.id) + " carries a stray cookie " + nm); O().count("stray_cookies_planted"); }
		if (r.chance(1, 7)) attack(w, r); else request(w, b, r);
		// clock
		int a = b.m.exists ? std::max(1, eff_age(w, b.m)) : w.def_age;
		static double const f[] = { 0, 0, 0, 0.01, 0.09, 0.1, 0.11, 0.5, 0.89, 0.9, 0.91, 0.99, 1.0, 1.01, 2.0 };
		long dt = (long)(a * f[r.below(15)]) + (r.chance(1, 3) ? r.range(-1, 1) : 0);
		if (dt < 0) dt = 0;
		if (r.chance(1, 2)) dt = r.below(3);
		vclock::now() += dt;
		if (dt) w.trace.push_back("clock +" + std::to_string(dt));
		if (r.chance(1, 40)) { for (auto it = b.j.cookies.begin(); it != b.j.cookies.end();) if (it->second.session_cookie) it = b.j.cookies.erase(it); else ++it; w.trace.push_back("browser " + std::to_string(b.id) + " restarted"); }
		if (w.storage == "files" && r.chance(1, 30)) { /* garbage collection at any point never removes a live session: next requests will tell */ }
	}
	if (idx < 3 && w.trace.size() > 3) O().sample("{\"location\":\"" + w.location + "\",\"storage\":\"" + w.storage + "\",\"expire\":\"" + hows[w.def_how] + "\",\"first_requests\":[" + jstr(w.trace[0]) + "," + jstr(w.trace[1]) + "," + jstr(w.trace[2]) + "]}");
	w.pool.reset();
	if (netsrv) { netsrv->stop(); netsrv.reset(); }
	if (!dir.empty()) { DIR *d = opendir(dir.c_str()); if (d) { while (dirent *e = readdir(d)) if (e->d_name[0] != '.') syscall(SYS_unlinkat, AT_FDCWD, (dir + "/" + e->d_name).c_str(), 0); closedir(d); } rmdir(dir.c_str()); }
}

int main(int argc, char **argv)
{
	args a(argc, argv);
	g_dir = a.str("dir", "");
	if (g_dir.empty()) { char t[] = "/tmp/verif-sess-XXXXXX"; g_dir = mkdtemp(t); } else mkdir(g_dir.c_str(), 0700);
	rng r(a.num("seed", 1));
	long long worlds = a.num("worlds", 20), nreq = a.num("requests", 100);
	for (long long i = 0; i < worlds && O().viol_count < 5; i++) run_world(r, i, nreq);
	O().count("storage_calls", g_storage_calls);
	// every path the file storage touched is <dir>/<32 lowercase hex>
	for (auto const &p : g_paths) {
		size_t s = p.rfind('/');
		if (p.find("/w") == std::string::npos) continue;
		std::string name = p.substr(s + 1);
		if (name.size() >= 1 && name[0] == 'w') continue;  // the storage directory itself
		if (!issued_form(name)) { O().viol("session:storage-touched-path-not-of-issued-form", p); break; }
	}
	O().count("paths_touched", (long long)g_paths.size());
	rmdir(g_dir.c_str());
	finish(a);
	return O().viol_count ? 1 : 0;
}
