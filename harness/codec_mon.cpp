// C15 monitor: HTML escaping on every output path, URL codec, base64url codec.
#include "common/vh.h"
#include <cppcms/util.h>
#include <cppcms/base64.h>
#include <cppcms/filters.h>
#include <cppcms/form.h>
#include <sstream>
#include <streambuf>
#include <memory>

using namespace vh;

// ---------- independent oracles ----------
// un-escape: accepts any HTML character reference form for the five characters (and numeric ones in general)
static bool ref_unescape(std::string const &s, std::string &out, std::string &why)
{
	out.clear();
	for (size_t i = 0; i < s.size();) {
		unsigned char c = s[i];
		if (c == '<' || c == '>' || c == '"' || c == '\'') { why = std::string("raw markup char '") + (char)c + "' at " + std::to_string(i); return false; }
		if (c != '&') { out += (char)c; i++; continue; }
		size_t semi = s.find(';', i);
		if (semi == std::string::npos || semi - i > 10) { why = "bare & at " + std::to_string(i); return false; }
		std::string name = s.substr(i + 1, semi - i - 1);
		if (name == "lt") out += '<';
		else if (name == "gt") out += '>';
		else if (name == "amp") out += '&';
		else if (name == "quot") out += '"';
		else if (name == "apos") out += '\'';
		else if (name.size() >= 2 && name[0] == '#') {
			char *end = 0; long v;
			if (name[1] == 'x' || name[1] == 'X') v = strtol(name.c_str() + 2, &end, 16); else v = strtol(name.c_str() + 1, &end, 10);
			if (!end || *end || v <= 0 || v > 255) { why = "bad numeric reference &" + name + ";"; return false; }
			out += (char)v;
		} else { why = "bare & (unknown entity &" + name + ";)"; return false; }
		i = semi + 1;
	}
	return true;
}

static void check_escaped(std::string const &in, std::string const &outp, char const *path)
{
	std::string back, why;
	O().count("escape_checks");
	if (!ref_unescape(outp, back, why)) { O().viol(std::string("escape:markup-survives:") + path, why + " in=" + hex(in) + " out=" + hex(outp), "{\"in\":\"" + hex(in) + "\"}"); return; }
	if (back != in) O().viol(std::string("escape:not-invertible:") + path, "in=" + hex(in) + " out=" + hex(outp), "{\"in\":\"" + hex(in) + "\"}");
}

static bool unreserved(unsigned char c) { return (c >= 'a' && c <= 'z') || (c >= 'A' && c <= 'Z') || (c >= '0' && c <= '9') || c == '-' || c == '_' || c == '.' || c == '~'; }
static int hexv(unsigned char c) { if (c >= '0' && c <= '9') return c - '0'; c |= 32; if (c >= 'a' && c <= 'f') return c - 'a' + 10; return -1; }
static void check_url(std::string const &in, std::string const &outp, char const *path)
{
	O().count("url_checks");
	std::string back;
	for (size_t i = 0; i < outp.size();) {
		unsigned char c = outp[i];
		if (unreserved(c)) { back += (char)c; i++; continue; }
		if (c == '%' && i + 2 < outp.size() + 0 && hexv(outp[i + 1]) >= 0 && hexv(outp[i + 2]) >= 0) { back += (char)(hexv(outp[i + 1]) * 16 + hexv(outp[i + 2])); i += 3; continue; }
		O().viol(std::string("url:alphabet:") + path, "in=" + hex(in) + " out=" + outp, "{\"in\":\"" + hex(in) + "\"}");
		return;
	}
	if (back != in) O().viol(std::string("url:reference-decode-mismatch:") + path, "in=" + hex(in) + " out=" + outp, "{\"in\":\"" + hex(in) + "\"}");
}

static char const B64[] = "ABCDEFGHIJKLMNOPQRSTUVWXYZabcdefghijklmnopqrstuvwxyz0123456789-_";
static std::string ref_b64(std::string const &in)
{
	std::string o;
	size_t i = 0;
	for (; i + 2 < in.size(); i += 3) {
		unsigned v = ((unsigned char)in[i] << 16) | ((unsigned char)in[i + 1] << 8) | (unsigned char)in[i + 2];
		o += B64[v >> 18]; o += B64[(v >> 12) & 63]; o += B64[(v >> 6) & 63]; o += B64[v & 63];
	}
	if (in.size() - i == 1) { unsigned v = (unsigned char)in[i] << 16; o += B64[v >> 18]; o += B64[(v >> 12) & 63]; }
	if (in.size() - i == 2) { unsigned v = ((unsigned char)in[i] << 16) | ((unsigned char)in[i + 1] << 8); o += B64[v >> 18]; o += B64[(v >> 12) & 63]; o += B64[(v >> 6) & 63]; }
	return o;
}

// heap buffer of exactly n bytes (ASan red zone right behind it)
struct exact {
	unsigned char *p; size_t n;
	explicit exact(size_t k) : p((unsigned char *)malloc(k ? k : 0)), n(k) { if (!p) p = (unsigned char *)malloc(1); }
	~exact() { free(p); }
};

// stream buffer that accepts `limit` characters and then fails; records calls after the first failure
struct limitbuf : public std::streambuf {
	size_t limit; std::string data; bool failed = false; int calls_after_failure = 0;
	explicit limitbuf(size_t l) : limit(l) {}
	int_type overflow(int_type c) override {
		if (failed) calls_after_failure++;
		if (c == traits_type::eof()) return traits_type::not_eof(c);
		if (data.size() >= limit) { failed = true; return traits_type::eof(); }
		data += (char)c; return c;
	}
	std::streamsize xsputn(char const *s, std::streamsize n) override {
		if (failed) calls_after_failure++;
		std::streamsize k = 0;
		while (k < n && data.size() < limit) data += s[k++];
		if (k < n) failed = true;
		return k;
	}
};

// a value that is not a string: its operator<< writes in pieces (single characters, small blocks, one large block), so the template
// filters see the text through their stream buffers in every chunking
struct piecewise { std::string const *s; unsigned how; };
static std::ostream &operator<<(std::ostream &out, piecewise const &p)
{
	std::string const &s = *p.s; size_t i = 0; unsigned h = p.how;
	while (i < s.size()) {
		h = h * 1103515245u + 12345u;
		size_t n = (h >> 16) % 4 == 0 ? 1 : (h >> 16) % 4 == 1 ? 1 + (h >> 20) % 7 : (h >> 16) % 4 == 2 ? 100 + (h >> 20) % 200 : s.size();
		n = std::min(n, s.size() - i);
		if (n == 1) out.put(s[i]); else out.write(s.data() + i, (std::streamsize)n);
		i += n;
	}
	return out;
}

static void all_paths(std::string const &in, bool heavy)
{
	std::string rp = "{\"in\":\"" + hex(in) + "\"}";
	char const *b = in.data(), *e = in.data() + in.size();
	// --- escape
	std::string e1 = cppcms::util::escape(in);
	check_escaped(in, e1, "string");
	{ std::stringbuf sb; int r = cppcms::util::escape(b, e, sb); if (r != 0) O().viol("escape:streambuf-reported-failure", rp, rp); if (sb.str() != e1) O().viol("escape:paths-disagree:streambuf", rp, rp); }
	{ std::ostringstream ss; cppcms::util::escape(b, e, ss); if (!ss) O().viol("escape:ostream-failbit", rp, rp); if (ss.str() != e1) O().viol("escape:paths-disagree:ostream", rp, rp); }
	{ std::ostringstream ss; ss << cppcms::filters::escape(in); check_escaped(in, ss.str(), "filters::escape"); }
	{ piecewise pw = { &in, (unsigned)fnv(in) }; std::ostringstream ss; ss << "[" << cppcms::filters::escape(pw) << "]"; std::string o = ss.str(); if (o != "[" + e1 + "]") O().viol("escape:paths-disagree:filter-on-streamed-object", rp, rp); O().count("filter_piecewise_checks"); }
	{ std::ostringstream ss; ss << cppcms::filters::escape(in.c_str()); std::string cs = in.c_str(); if (ss.str() != cppcms::util::escape(cs)) O().viol("escape:paths-disagree:filter-on-c-string", rp, rp); }
	// --- urlencode
	std::string u1 = cppcms::util::urlencode(in);
	check_url(in, u1, "string");
	{ std::stringbuf sb; int r = cppcms::util::urlencode(b, e, sb); if (r != 0 || sb.str() != u1) O().viol("url:paths-disagree:streambuf", rp, rp); }
	{ std::ostringstream ss; cppcms::util::urlencode(b, e, ss); if (ss.str() != u1) O().viol("url:paths-disagree:ostream", rp, rp); }
	{ std::ostringstream ss; ss << cppcms::filters::urlencode(in); if (ss.str() != u1) O().viol("url:paths-disagree:filter", rp, rp); }
	{ piecewise pw = { &in, (unsigned)fnv(in) + 7 }; std::ostringstream ss; ss << "[" << cppcms::filters::urlencode(pw) << "]"; if (ss.str() != "[" + u1 + "]") O().viol("url:paths-disagree:filter-on-streamed-object", rp, rp); }
	if (cppcms::util::urldecode(u1) != in) O().viol("url:decode-does-not-invert", "in=" + hex(in) + " enc=" + u1, rp);
	{ exact buf(u1.size()); memcpy(buf.p, u1.data(), u1.size()); if (cppcms::util::urldecode((char const *)buf.p, (char const *)buf.p + buf.n) != in) O().viol("url:decode-ptr-does-not-invert", rp, rp); }
	// --- base64url
	std::string want = ref_b64(in);
	std::string b1 = cppcms::b64url::encode(in);
	O().count("b64_checks");
	if (b1 != want) O().viol("b64:encode-mismatch", "in=" + hex(in) + " got=" + b1 + " want=" + want, rp);
	if (cppcms::b64url::encoded_size(in.size()) != (int)want.size()) O().viol("b64:encoded_size", rp, rp);
	if (cppcms::b64url::decoded_size(want.size()) != (int)in.size()) O().viol("b64:decoded_size", rp, rp);
	{
		exact src(in.size()); memcpy(src.p, in.data(), in.size());
		int es = cppcms::b64url::encoded_size(in.size());
		exact dst(es);
		unsigned char *end = cppcms::b64url::encode(src.p, src.p + src.n, dst.p);
		if (end != dst.p + es || std::string((char *)dst.p, es) != want) O().viol("b64:encode-ptr", rp, rp);
		int ds = cppcms::b64url::decoded_size(es);
		exact back(ds);
		unsigned char *e2 = cppcms::b64url::decode(dst.p, dst.p + es, back.p);
		if (e2 != back.p + ds || std::string((char *)back.p, ds) != in) O().viol("b64:decode-ptr", rp, rp);
	}
	{ std::string o = "S"; bool ok = cppcms::b64url::decode(want, o); if (!ok || o != in) O().viol("b64:decode-string", "decode(encode(x)) into a string that already held something: got " + std::to_string(o.size()) + " bytes for " + std::to_string(in.size()), rp); }
	{ std::ostringstream ss; cppcms::b64url::encode((unsigned char const *)b, (unsigned char const *)e, ss); if (ss.str() != want) O().viol("b64:encode-ostream", rp, rp); }
	{ std::ostringstream ss; ss << "[" << cppcms::filters::base64_urlencode(in) << "]"; if (ss.str() != "[" + want + "]") O().viol("b64:encode-filter", rp, rp); }
	{ piecewise pw = { &in, (unsigned)fnv(in) + 13 }; std::ostringstream ss; ss << "[" << cppcms::filters::base64_urlencode(pw) << "]"; if (ss.str() != "[" + want + "]") O().viol("b64:encode-filter-on-streamed-object", rp, rp); }
	if (!heavy) return;
	// --- failing sinks: every failure point
	size_t full = e1.size();
	for (size_t lim = 0; lim <= full; lim += (full > 200 ? 1 + full / 97 : 1)) {
		limitbuf lb(lim);
		int r = cppcms::util::escape(b, e, lb);
		O().count("failing_sink_runs");
		bool should_fail = lim < full;
		// failure reporting is outside the property's statement: recorded as an observation only
		if ((r != 0) != should_fail) O().count("obs_escape_failing_sink_return_unexpected");
		if (e1.compare(0, lb.data.size(), lb.data) != 0) O().viol("escape:failing-sink-not-prefix", rp, rp);
		if (lb.calls_after_failure) O().count("obs_escape_writes_after_failure");
		limitbuf lb2(lim);
		std::ostream os(&lb2);
		cppcms::util::escape(b, e, os);
		if (should_fail && os.good()) O().count("obs_escape_ostream_failure_unreported");
		if (e1.compare(0, lb2.data.size(), lb2.data) != 0) O().viol("escape:ostream-failing-not-prefix", rp, rp);
	}
	for (size_t lim = 0; lim <= u1.size(); lim += (u1.size() > 200 ? 1 + u1.size() / 97 : 1)) {
		limitbuf lb(lim);
		int r = cppcms::util::urlencode(b, e, lb);
		bool should_fail = lim < u1.size();
		if ((r != 0) != should_fail) O().count("obs_urlencode_failing_sink_return_unexpected");
		if (u1.compare(0, lb.data.size(), lb.data) != 0) O().viol("url:failing-sink-not-prefix", rp, rp);
		if (lb.calls_after_failure) O().count("obs_urlencode_writes_after_failure");
	}
}

static void mode_exhaust(args const &a)
{
	int maxlen = (int)a.num("maxlen", 2);
	int from = (int)a.num("from", 0), to = (int)a.num("to", 256);
	std::string s;
	if (from == 0) { all_paths("", true); O().count("cases"); }
	for (int c0 = from; c0 < to; c0++) {
		s.assign(1, (char)c0);
		all_paths(s, true); O().count("cases");
		if (maxlen < 2) continue;
		for (int c1 = 0; c1 < 256; c1++) {
			s.assign(1, (char)c0); s += (char)c1;
			all_paths(s, true); O().count("cases");
		}
	}
	O().sample("{\"mode\":\"exhaust\",\"first_byte_from\":" + std::to_string(from) + ",\"to\":" + std::to_string(to) + "}");
}
// base64 only: all strings of length 3 (block handling), split by first byte
static void mode_b64_3(args const &a)
{
	int from = (int)a.num("from", 0), to = (int)a.num("to", 256);
	unsigned char in[3], enc[4], dec[3];
	for (int c0 = from; c0 < to; c0++) for (int c1 = 0; c1 < 256; c1++) for (int c2 = 0; c2 < 256; c2++) {
		in[0] = c0; in[1] = c1; in[2] = c2;
		unsigned v = (c0 << 16) | (c1 << 8) | c2;
		unsigned char *e = cppcms::b64url::encode(in, in + 3, enc);
		bool ok = e == enc + 4 && enc[0] == (unsigned char)B64[v >> 18] && enc[1] == (unsigned char)B64[(v >> 12) & 63] && enc[2] == (unsigned char)B64[(v >> 6) & 63] && enc[3] == (unsigned char)B64[v & 63];
		unsigned char *d = cppcms::b64url::decode(enc, enc + 4, dec);
		ok = ok && d == dec + 3 && memcmp(dec, in, 3) == 0;
		if (!ok) { std::string s((char *)in, 3); O().viol("b64:block3", hex(s), "{\"in\":\"" + hex(s) + "\"}"); }
	}
	O().count("cases", (long long)(to - from) * 65536);
	O().count("b64_checks", (long long)(to - from) * 65536);
}

static std::string gen(rng &r, size_t n)
{
	std::string s;
	int kind = r.below(4);
	static char const specials[] = "<>&\"'%+ ;#=/?\\\r\n\0\x7f\xff";
	for (size_t i = 0; i < n; i++) {
		if (kind == 0) s += (char)r.byte();
		else if (kind == 1) s += specials[r.below(sizeof specials - 1)];
		else if (kind == 2) s += r.chance(1, 3) ? specials[r.below(5)] : (char)r.range('a', 'z');
		else s += r.chance(1, 20) ? specials[r.below(sizeof specials - 1)] : (char)r.byte();
	}
	return s;
}

static void mode_sizes(args const &)
{
	rng r(7);
	for (size_t n = 0; n <= 1024; n++) {
		for (int k = 0; k < 3; k++) { all_paths(gen(r, n), n <= 130 || n % 64 < 2); O().count("cases"); }
		O().seen("lengths", n);
	}
	O().sample("{\"mode\":\"sizes\",\"lengths\":\"0..1024 x3 contents each, exact-size heap buffers\"}");
}

static void mode_random(args const &a)
{
	rng r(a.num("seed", 1));
	long long cases = a.num("cases", 2000);
	for (long long i = 0; i < cases; i++) {
		size_t n;
		switch (r.below(5)) { case 0: n = r.below(8); break; case 1: n = r.range(120, 136); break; case 2: n = r.below(2000); break; case 3: n = r.range(250, 260); break; default: n = r.chance(1, 20) ? r.below(65536) : r.below(300); }
		std::string s = gen(r, n);
		all_paths(s, n < 400 && r.chance(1, 4));
		O().count("cases");
		O().seen("inputs", fnv(s));
		if (i < 2) O().sample("{\"mode\":\"random\",\"in\":\"" + hex(s.substr(0, 48)) + "\",\"len\":" + std::to_string(s.size()) + "}");
	}
}

// decoders on arbitrary (malformed) input placed in exact-size heap buffers
static void mode_decoders(args const &a)
{
	rng r(a.num("seed", 1));
	long long cases = a.num("cases", 20000);
	static char const urlish[] = "%%%%%+abcXYZ019fF gG-_.~=&\0\xff";
	for (long long i = 0; i < cases; i++) {
		size_t n = r.chance(1, 10) ? r.below(3000) : r.below(24);
		std::string s;
		bool struct_ = r.chance(3, 4);
		for (size_t k = 0; k < n; k++) s += struct_ ? urlish[r.below(sizeof urlish - 1)] : (char)r.byte();
		exact buf(s.size()); memcpy(buf.p, s.data(), s.size());
		std::string d = cppcms::util::urldecode((char const *)buf.p, (char const *)buf.p + buf.n);
		O().count("cases"); O().count("decoder_cases");
		O().seen("inputs", fnv(s));
		std::string rp = "{\"in\":\"" + hex(s) + "\"}";
		if (d.size() > s.size()) O().viol("url:decode-grows", rp, rp);
		// reference for the well-defined part: valid %XX -> byte, '+' -> space, other chars literal; a '%' not followed by two hex digits is unspecified
		{
			std::string want; bool defined = true;
			for (size_t k = 0; k < s.size(); k++) {
				unsigned char c = s[k];
				if (c == '+') want += ' ';
				else if (c == '%') { if (k + 2 < s.size() + 0 && hexv(s[k + 1]) >= 0 && hexv(s[k + 2]) >= 0) { want += (char)(hexv(s[k + 1]) * 16 + hexv(s[k + 2])); k += 2; } else { defined = false; break; } }
				else want += (char)c;
			}
			if (defined && d != want) O().viol("url:decode-wellformed-mismatch", rp, rp);
			if (defined) O().count("decoder_defined");
		}
		// base64 decoders on arbitrary bytes
		std::string o = "S";
		bool ok = cppcms::b64url::decode(s, o);
		int ds = cppcms::b64url::decoded_size(s.size());
		if (ok != (ds >= 0)) O().viol("b64:decode-arbitrary-return", rp, rp);
		if (ok && ds > 0 && (int)o.size() != ds) O().viol("b64:decode-arbitrary-size", rp, rp);
		if (ds >= 0) {
			exact out(ds);
			unsigned char *e = cppcms::b64url::decode(buf.p, buf.p + buf.n, out.p);
			if (e != out.p + ds) O().viol("b64:decode-arbitrary-ptr-end", rp, rp);
		}
	}
}

// form widgets: the payload sits between sentinels inside generated markup
static void mode_widgets(args const &a)
{
	rng r(a.num("seed", 1));
	long long cases = a.num("cases", 2000);
	static char const alpha[] = "<>&\"'ab c;#=/\n";
	for (long long i = 0; i < cases; i++) {
		std::string x;
		size_t n = r.chance(1, 5) ? r.range(120, 300) : r.below(20);
		for (size_t k = 0; k < n; k++) x += alpha[r.below(sizeof alpha - 1)];
		std::string v = "QQ7" + x + "7QQ";
		std::vector<std::pair<std::string, std::string> > outs;
		for (int html = 0; html < 2; html++) {
			auto ht = html ? cppcms::form_flags::as_html : cppcms::form_flags::as_xhtml;
			{ cppcms::widgets::text w; w.value(v); w.message(v); w.help(v); w.error_message(v); w.valid(false); std::ostringstream ss; cppcms::form_context ctx(ss, ht); w.render(ctx); outs.push_back({"text", ss.str()}); }
			{ cppcms::widgets::textarea w; w.value(v); std::ostringstream ss; cppcms::form_context ctx(ss, ht); w.render(ctx); outs.push_back({"textarea", ss.str()}); }
			{ cppcms::widgets::hidden w; w.value(v); std::ostringstream ss; cppcms::form_context ctx(ss, ht); w.render(ctx); outs.push_back({"hidden", ss.str()}); }
			{ cppcms::widgets::password w; w.value(v); std::ostringstream ss; cppcms::form_context ctx(ss, ht); w.render(ctx); outs.push_back({"password", ss.str()}); }
			{ cppcms::widgets::submit w; w.value(v); std::ostringstream ss; cppcms::form_context ctx(ss, ht); w.render(ctx); outs.push_back({"submit", ss.str()}); }
			{ cppcms::widgets::checkbox w; w.identification(v); std::ostringstream ss; cppcms::form_context ctx(ss, ht); w.render(ctx); outs.push_back({"checkbox", ss.str()}); }
			{ cppcms::widgets::select w; w.add(v, v); w.add("plain"); std::ostringstream ss; cppcms::form_context ctx(ss, ht); w.render(ctx); outs.push_back({"select", ss.str()}); }
			{ cppcms::widgets::select_multiple w; w.add(v, v, true); std::ostringstream ss; cppcms::form_context ctx(ss, ht); w.render(ctx); outs.push_back({"select_multiple", ss.str()}); }
			{ cppcms::widgets::radio w; w.add(v, v); std::ostringstream ss; cppcms::form_context ctx(ss, ht); w.render(ctx); outs.push_back({"radio", ss.str()}); }
		}
		for (auto &o : outs) {
			size_t pos = 0; int found = 0;
			while ((pos = o.second.find("QQ7", pos)) != std::string::npos) {
				size_t end = o.second.find("7QQ", pos + 3);
				std::string rp = "{\"widget\":\"" + o.first + "\",\"value\":\"" + hex(v) + "\"}";
				if (end == std::string::npos) { O().viol("escape:widget-payload-broken:" + o.first, o.second, rp); break; }
				std::string inner = o.second.substr(pos + 3, end - pos - 3), back, why;
				O().count("widget_payloads");
				if (!ref_unescape(inner, back, why)) O().viol("escape:markup-survives:widget-" + o.first, why + " html=" + o.second, rp);
				else if (back != x) O().viol("escape:not-invertible:widget-" + o.first, o.second, rp);
				pos = end + 3; found++;
			}
			if (!found && o.first != "password") O().viol("harness:widget-payload-not-rendered:" + o.first, o.second);
		}
		O().count("cases");
		O().seen("inputs", fnv(x));
		if (i == 0) O().sample("{\"mode\":\"widgets\",\"value\":" + jstr(v) + ",\"text_widget_html\":" + jstr(outs[0].second) + "}");
	}
}

// dump (input, outputs) for the independent python inverses
static void mode_dump(args const &a)
{
	rng r(a.num("seed", 1));
	long long cases = a.num("cases", 1000);
	FILE *f = fopen(a.str("out").c_str(), "w");
	if (!f) { perror("out"); exit(3); }
	for (long long i = 0; i < cases; i++) {
		std::string s = gen(r, r.chance(1, 10) ? r.below(5000) : r.below(40));
		std::ostringstream fe; fe << cppcms::filters::escape(s);
		fprintf(f, "{\"in\":\"%s\",\"esc\":\"%s\",\"fesc\":\"%s\",\"url\":\"%s\",\"b64\":\"%s\"}\n", hex(s).c_str(), hex(cppcms::util::escape(s)).c_str(), hex(fe.str()).c_str(),
			hex(cppcms::util::urlencode(s)).c_str(), hex(cppcms::b64url::encode(s)).c_str());
		O().count("cases"); O().count("dumped");
	}
	fclose(f);
}

int main(int argc, char **argv)
{
	args a(argc, argv);
	std::string mode = a.str("mode", "random");
	if (mode == "exhaust") mode_exhaust(a);
	else if (mode == "b64_3") mode_b64_3(a);
	else if (mode == "sizes") mode_sizes(a);
	else if (mode == "random") mode_random(a);
	else if (mode == "decoders") mode_decoders(a);
	else if (mode == "widgets") mode_widgets(a);
	else if (mode == "dump") mode_dump(a);
	else if (mode == "one") { all_paths(unhex(a.str("in")), true); }
	finish(a);
	return O().viol_count ? 1 : 0;
}
