// Common helpers for the /verif harnesses: PRNG, argument parsing, JSON-lines output,
// distinct-case counting, violation reporting.
#ifndef VERIF_VH_H
#define VERIF_VH_H
#include <stdint.h>
#include <stdio.h>
#include <stdlib.h>
#include <string.h>
#include <string>
#include <vector>
#include <map>
#include <set>
#include <unordered_set>
#include <sstream>
#include <mutex>

namespace vh {

struct rng {
	uint64_t s;
	explicit rng(uint64_t seed = 1) : s(0) {
		// scramble the seed so that nearby seeds give unrelated streams
		uint64_t z = seed + 0x632BE59BD9B4E019ull;
		z = (z ^ (z >> 30)) * 0xBF58476D1CE4E5B9ull;
		z = (z ^ (z >> 27)) * 0x94D049BB133111EBull;
		s = z ^ (z >> 31);
		s *= 0xD6E8FEB86659FD93ull; s ^= s >> 32;
	}
	uint64_t next() {
		uint64_t z = (s += 0x9E3779B97F4A7C15ull);
		z = (z ^ (z >> 30)) * 0xBF58476D1CE4E5B9ull;
		z = (z ^ (z >> 27)) * 0x94D049BB133111EBull;
		return z ^ (z >> 31);
	}
	uint32_t below(uint32_t n) { return n ? (uint32_t)(next() % n) : 0; }
	int range(int lo, int hi) { return lo + (int)below((uint32_t)(hi - lo + 1)); } // inclusive
	bool chance(int num, int den) { return (int)below(den) < num; }
	unsigned char byte() { return (unsigned char)(next() & 0xff); }
	std::string bytes(size_t n) {
		std::string r(n, '\0');
		for (size_t i = 0; i < n; i++) r[i] = (char)byte();
		return r;
	}
	template <typename T> T const &pick(std::vector<T> const &v) { return v[below((uint32_t)v.size())]; }
};

inline uint64_t fnv(void const *p, size_t n, uint64_t h = 1469598103934665603ull) {
	unsigned char const *c = (unsigned char const *)p;
	for (size_t i = 0; i < n; i++) { h ^= c[i]; h *= 1099511628211ull; }
	return h;
}
inline uint64_t fnv(std::string const &s, uint64_t h = 1469598103934665603ull) { return fnv(s.data(), s.size(), h); }
inline uint64_t mix(uint64_t h, uint64_t v) {
	h ^= v + 0x9E3779B97F4A7C15ull + (h << 6) + (h >> 2);
	return h;
}

inline std::string hex(std::string const &s) {
	static char const *d = "0123456789abcdef";
	std::string r;
	r.reserve(s.size() * 2);
	for (unsigned char c : s) { r += d[c >> 4]; r += d[c & 15]; }
	return r;
}
inline std::string unhex(std::string const &s) {
	std::string r;
	auto v = [](char c) { return c <= '9' ? c - '0' : (c | 32) - 'a' + 10; };
	for (size_t i = 0; i + 1 < s.size(); i += 2) r += (char)(v(s[i]) * 16 + v(s[i + 1]));
	return r;
}
inline std::string jstr(std::string const &s) {
	std::string r = "\"";
	for (unsigned char c : s) {
		if (c == '"' || c == '\\') { r += '\\'; r += (char)c; }
		else if (c < 0x20 || c >= 0x7f) { char b[8]; snprintf(b, sizeof b, "\\u%04x", c); r += b; }
		else r += (char)c;
	}
	return r + "\"";
}

// ---- distinct counting -------------------------------------------------
struct distinct {
	std::unordered_set<uint64_t> seen;
	size_t cap;
	uint64_t overflow = 0;
	explicit distinct(size_t c = 200000) : cap(c) {}
	bool add(uint64_t h) {
		if (seen.size() >= cap) { if (!seen.count(h)) overflow++; return false; }
		return seen.insert(h).second;
	}
	size_t size() const { return seen.size(); }
};

// ---- arguments ---------------------------------------------------------
struct args {
	std::map<std::string, std::string> kv;
	args(int argc, char **argv) {
		for (int i = 1; i < argc; i++) {
			std::string a = argv[i];
			if (a.compare(0, 2, "--") == 0) {
				std::string k = a.substr(2);
				size_t eq = k.find('=');
				if (eq != std::string::npos) kv[k.substr(0, eq)] = k.substr(eq + 1);
				else if (i + 1 < argc && strncmp(argv[i + 1], "--", 2) != 0) kv[k] = argv[++i];
				else kv[k] = "1";
			}
		}
	}
	long long num(std::string const &k, long long d) const {
		auto p = kv.find(k);
		return p == kv.end() ? d : atoll(p->second.c_str());
	}
	std::string str(std::string const &k, std::string const &d = "") const {
		auto p = kv.find(k);
		return p == kv.end() ? d : p->second;
	}
	bool has(std::string const &k) const { return kv.count(k) != 0; }
};

// ---- output ------------------------------------------------------------
struct out {
	std::mutex m;
	int viol_count = 0;
	int max_viol = 20;
	std::map<std::string, long long> counters;
	std::map<std::string, std::string> strs;   // raw JSON fragments
	std::vector<std::string> samples;          // raw JSON fragments
	std::map<std::string, distinct> sets;

	void viol(std::string const &key, std::string const &detail, std::string const &replay_json = "null") {
		std::lock_guard<std::mutex> g(m);
		viol_count++;
		if (viol_count > max_viol) return;
		printf("{\"viol\":{\"key\":%s,\"detail\":%s,\"replay\":%s}}\n", jstr(key).c_str(), jstr(detail).c_str(), replay_json.c_str());
		fflush(stdout);
	}
	void count(std::string const &k, long long n = 1) { std::lock_guard<std::mutex> g(m); counters[k] += n; }
	void setmax(std::string const &k, long long n) { std::lock_guard<std::mutex> g(m); if (counters[k] < n) counters[k] = n; }
	bool seen(std::string const &set, uint64_t h) { std::lock_guard<std::mutex> g(m); return sets[set].add(h); }
	void sample(std::string const &json, size_t maxn = 4) { std::lock_guard<std::mutex> g(m); if (samples.size() < maxn) samples.push_back(json); }
	void raw(std::string const &k, std::string const &json) { std::lock_guard<std::mutex> g(m); strs[k] = json; }

	// writes hashes of a set to a file (for cross-process union by the driver)
	void dump_set(std::string const &set, std::string const &path) {
		FILE *f = fopen(path.c_str(), "wb");
		if (!f) return;
		for (uint64_t h : sets[set].seen) fwrite(&h, 8, 1, f);
		fclose(f);
	}
	void summary() {
		std::lock_guard<std::mutex> g(m);
		std::string s = "{\"summary\":{";
		bool first = true;
		for (auto &c : counters) {
			if (!first) s += ",";
			first = false;
			s += jstr(c.first) + ":" + std::to_string(c.second);
		}
		for (auto &c : sets) {
			if (!first) s += ",";
			first = false;
			s += jstr("distinct_" + c.first) + ":" + std::to_string((long long)c.second.size());
		}
		for (auto &c : strs) {
			if (!first) s += ",";
			first = false;
			s += jstr(c.first) + ":" + c.second;
		}
		if (!first) s += ",";
		s += "\"violations\":" + std::to_string(viol_count) + ",\"samples\":[";
		for (size_t i = 0; i < samples.size(); i++) { if (i) s += ","; s += samples[i]; }
		s += "]}}\n";
		fputs(s.c_str(), stdout);
		fflush(stdout);
	}
};

inline out &O() { static out o; return o; }

inline void finish(args const &a) {
	std::string hp = a.str("hashes");
	if (!hp.empty()) {
		for (auto &c : O().sets) O().dump_set(c.first, hp + "." + c.first);
	}
	O().summary();
}

} // namespace vh

#define VH_CHECK(cond, key, detail) do { if(!(cond)) vh::O().viol(key, detail); } while(0)

#endif
