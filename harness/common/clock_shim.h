// Link-time shim: the statically linked cppcms code calls this time() instead of libc's.
#ifndef VERIF_CLOCK_SHIM_H
#define VERIF_CLOCK_SHIM_H
#include <time.h>
#include <atomic>
namespace vclock {
	inline std::atomic<long> &now() { static std::atomic<long> t(1500000000L); return t; }
	inline std::atomic<long> &calls() { static std::atomic<long> c(0); return c; }
}
extern "C" time_t time(time_t *t)
{
	vclock::calls()++;
	time_t v = (time_t)vclock::now().load();
	if (t) *t = v;
	return v;
}
#endif
