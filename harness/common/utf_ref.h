// Independent UTF-8 well-formedness reference (Unicode Table 3-7).
#ifndef VERIF_UTF_REF_H
#define VERIF_UTF_REF_H
#include <stddef.h>
#include <stdint.h>
#include <string>
namespace vref {
inline bool in(unsigned c, unsigned lo, unsigned hi) { return lo <= c && c <= hi; }
// returns length of the well-formed sequence at p (n bytes available) or 0
inline int utf8_len(unsigned char const *p, size_t n, uint32_t *cp = 0)
{
	if (n < 1) return 0;
	unsigned b0 = p[0];
	uint32_t c; int len;
	if (b0 <= 0x7F) { c = b0; len = 1; }
	else if (in(b0, 0xC2, 0xDF)) { if (n < 2 || !in(p[1], 0x80, 0xBF)) return 0; c = ((b0 & 0x1Fu) << 6) | (p[1] & 0x3Fu); len = 2; }
	else if (in(b0, 0xE0, 0xEF)) {
		if (n < 3) return 0;
		unsigned lo = b0 == 0xE0 ? 0xA0 : 0x80, hi = b0 == 0xED ? 0x9F : 0xBF;
		if (!in(p[1], lo, hi) || !in(p[2], 0x80, 0xBF)) return 0;
		c = ((b0 & 0x0Fu) << 12) | ((p[1] & 0x3Fu) << 6) | (p[2] & 0x3Fu); len = 3;
	}
	else if (in(b0, 0xF0, 0xF4)) {
		if (n < 4) return 0;
		unsigned lo = b0 == 0xF0 ? 0x90 : 0x80, hi = b0 == 0xF4 ? 0x8F : 0xBF;
		if (!in(p[1], lo, hi) || !in(p[2], 0x80, 0xBF) || !in(p[3], 0x80, 0xBF)) return 0;
		c = ((b0 & 0x07u) << 18) | ((p[1] & 0x3Fu) << 12) | ((p[2] & 0x3Fu) << 6) | (p[3] & 0x3Fu); len = 4;
	}
	else return 0;
	if (cp) *cp = c;
	return len;
}
inline bool utf8_valid(std::string const &s)
{
	size_t i = 0;
	while (i < s.size()) { int l = utf8_len((unsigned char const *)s.data() + i, s.size() - i); if (!l) return false; i += l; }
	return true;
}
inline std::string utf8_enc(uint32_t cp)
{
	std::string s;
	if (cp < 0x80) s += (char)cp;
	else if (cp < 0x800) { s += (char)(0xC0 | (cp >> 6)); s += (char)(0x80 | (cp & 0x3F)); }
	else if (cp < 0x10000) { s += (char)(0xE0 | (cp >> 12)); s += (char)(0x80 | ((cp >> 6) & 0x3F)); s += (char)(0x80 | (cp & 0x3F)); }
	else { s += (char)(0xF0 | (cp >> 18)); s += (char)(0x80 | ((cp >> 12) & 0x3F)); s += (char)(0x80 | ((cp >> 6) & 0x3F)); s += (char)(0x80 | (cp & 0x3F)); }
	return s;
}
}
#endif
