// C12 monitor (in-process part): impl::multipart_parser driven by the same consume loop as
// http::request::on_content_progress, for every partition of the body; plus urlencoded form parsing
// through the public http::request is covered end-to-end by the server harness.
#include "common/vh.h"
#include "multipart_parser.h"
#include <cppcms/http_file.h>
#include <algorithm>
#include <dirent.h>
#include <sys/stat.h>
#include <unistd.h>

using namespace vh;
using cppcms::impl::multipart_parser;

struct part { std::string name, filename, mime, content; bool has_filename, has_mime; };
struct outcome {
	int status;                       // 0 accepted, 400, 413
	std::vector<part> parts;
	long long spilled;                // temp files observed while parsing
	bool operator==(outcome const &o) const {
		if (status != o.status) return false;
		if (status != 0) return true;
		if (parts.size() != o.parts.size()) return false;
		for (size_t i = 0; i < parts.size(); i++) {
			part const &a = parts[i], &b = o.parts[i];
			if (a.name != b.name || a.filename != b.filename || a.mime != b.mime || a.content != b.content || a.has_mime != b.has_mime) return false;
		}
		return true;
	}
};
static std::string g_tmpdir;
static long long count_dir(std::string const &d)
{
	long long n = 0; DIR *dir = opendir(d.c_str()); if (!dir) return -1;
	while (dirent *e = readdir(dir)) if (e->d_name[0] != '.') n++;
	closedir(dir); return n;
}
static std::string slurp(std::istream &in)
{
	std::string r; in.clear(); in.seekg(0);
	std::streambuf *b = in.rdbuf(); int c;
	while ((c = b->sbumpc()) != EOF) r += (char)c;
	return r;
}

// the consume loop of request::on_content_progress, chunk by chunk
static outcome parse(std::string const &content_type, std::string const &body, std::vector<size_t> const &cuts, long long mem_limit, long long field_limit)
{
	outcome o; o.status = 0; o.spilled = 0;
	{
		multipart_parser p(g_tmpdir, (size_t)mem_limit);
		if (!p.set_content_type(content_type)) { o.status = 400; return o; }
		size_t content_length = body.size(), read_size = 0, pos = 0, ci = 0;
		bool ready = false;
		multipart_parser::parsing_result_type r = multipart_parser::continue_input;
		while (pos < body.size() && o.status == 0) {
			size_t end_pos = ci < cuts.size() ? cuts[ci++] : body.size();
			if (end_pos <= pos) continue;
			if (end_pos > body.size()) end_pos = body.size();
			// the real code copies every chunk into its own buffer: do the same with an exact-size heap block
			std::vector<char> chunk(body.begin() + pos, body.begin() + end_pos);
			char const *begin = chunk.data(), *end = chunk.data() + chunk.size();
			read_size += chunk.size(); pos = end_pos;
			while (begin != end && o.status == 0) {
				r = p.consume(begin, end);
				switch (r) {
				case multipart_parser::meta_ready: break;
				case multipart_parser::content_partial: { cppcms::http::file &f = p.get_file(); if (!f.has_mime() && f.size() > field_limit) o.status = 413; break; }
				case multipart_parser::content_ready: { cppcms::http::file &f = p.last_file(); f.data().seekg(0); if (!f.has_mime() && f.size() > field_limit) o.status = 413; break; }
				case multipart_parser::continue_input: break;
				case multipart_parser::no_room_left: o.status = 413; break;
				case multipart_parser::eof: if (begin != end || read_size != content_length) o.status = 400; break;
				default: o.status = 400;
				}
				if (begin > end) { O().viol("multipart:parser-advanced-past-chunk-end", ""); o.status = 400; }
			}
			if (o.status == 0 && begin == end && read_size == content_length && r != multipart_parser::eof) o.status = 400;
			if (o.status == 0 && read_size == content_length) ready = true;
			long long nfiles = count_dir(g_tmpdir);
			if (nfiles > o.spilled) o.spilled = nfiles;
		}
		if (body.empty()) ready = true;
		if (o.status == 0 && !ready) o.status = 400;
		if (o.status == 0) {
			multipart_parser::files_type files = p.get_files();
			for (auto &f : files) {
				part q; q.name = f->name(); q.filename = f->filename(); q.mime = f->mime(); q.has_mime = f->has_mime(); q.has_filename = !q.filename.empty();
				q.content = slurp(f->data());
				if ((long long)q.content.size() != f->size()) O().viol("multipart:file-size-differs-from-content", std::to_string(f->size()) + " vs " + std::to_string(q.content.size()));
				o.parts.push_back(q);
			}
		}
	}
	// every temporary file is gone once the parser and its files are destroyed
	if (count_dir(g_tmpdir) != 0) { O().viol("multipart:temporary-file-left-behind", std::to_string(count_dir(g_tmpdir)) + " files"); std::string cmd = "rm -f " + g_tmpdir + "/*"; if (system(cmd.c_str())) {} }
	return o;
}

// ---------------------------------------------------------------- encoder
static char const BCHARS[] = "0123456789abcdefghijklmnopqrstuvwxyzABCDEFGHIJKLMNOPQRSTUVWXYZ'()+_,-./:=?";
static std::string gen_boundary(rng &r, bool &needs_quote)
{
	size_t n; switch (r.below(5)) { case 0: n = 1; break; case 1: n = 70; break; case 2: n = r.range(2, 8); break; default: n = r.range(8, 40); }
	std::string b; needs_quote = false;
	int style = r.below(4);
	for (size_t i = 0; i < n; i++) {
		char c;
		if (style == 0) c = '-'; else if (style == 1) c = BCHARS[r.below(62)]; else c = BCHARS[r.below(sizeof BCHARS - 1)];
		if (style == 3 && r.chance(1, 8) && i + 1 < n) c = ' ';
		b += c;
	}
	if (style == 0 && n > 1 && r.chance(1, 2)) b[r.below((uint32_t)n)] = 'x';
	for (char c : b) if (!isalnum((unsigned char)c) && c != '-' && c != '_' && c != '.' && c != '+' && c != '\'') needs_quote = true;
	return b;
}
static std::string quote(std::string const &s) { std::string o = "\""; for (char c : s) { if (c == '"' || c == '\\') o += '\\'; o += c; } return o + "\""; }
static bool tokenish(std::string const &s) { if (s.empty()) return false; for (unsigned char c : s) if (c < 0x21 || c > 0x7E || cppcms::http::protocol::separator((char)c)) return false; return true; }
static std::string gen_content(rng &r, std::string const &boundary, size_t maxlen)
{
	std::string full = "\r\n--" + boundary;
	std::string c;
	size_t target; switch (r.below(6)) { case 0: target = 0; break; case 1: target = r.below(4); break; case 2: target = r.below((uint32_t)maxlen + 1); break; default: target = r.below(200); }
	while (c.size() < target) {
		switch (r.below(9)) {
		case 0: c += full.substr(0, 1 + r.below((uint32_t)full.size() - 1)); c += (char)('A' + r.below(3)); break;       // proper prefix + non-matching byte
		case 1: c += full.substr(0, full.size() - 1); break;                                                            // boundary minus its last byte
		case 2: c += std::string(1 + r.below(4), "\r\n-"[r.below(3)]); break;
		case 3: c += "\r\n--"; break;
		case 4: c += "--" + boundary; break;                                                                           // boundary without the CRLF in front
		case 5: c += "\r\r\n--" + boundary.substr(0, boundary.size() / 2); break;
		case 6: c += r.bytes(1 + r.below(16)); break;
		case 7: c += "\r\n\r\n"; break;
		default: c += (char)r.range(32, 126);
		}
	}
	// the content must not contain the full delimiter itself
	size_t p;
	while ((p = c.find(full)) != std::string::npos) c[p + full.size() - 1] ^= 1;
	return c;
}
static std::string encode(rng &r, std::vector<part> const &parts, std::string const &boundary)
{
	std::string b;
	for (part const &p : parts) {
		b += "--" + boundary + "\r\n";
		static char const *cd[] = { "Content-Disposition", "content-disposition", "CONTENT-DISPOSITION" };
		b += cd[r.below(3)]; b += r.chance(1, 4) ? " :" : ":"; b += r.chance(1, 4) ? "" : " ";
		b += r.chance(1, 5) ? "Form-Data" : "form-data";
		std::string np = (tokenish(p.name) && r.chance(1, 2)) ? p.name : quote(p.name);
		b += r.chance(1, 4) ? " ; " : "; "; b += r.chance(1, 6) ? "NAME=" : "name="; b += np;
		if (p.has_filename) { b += r.chance(1, 4) ? ";" : "; "; b += "filename="; b += (tokenish(p.filename) && r.chance(1, 2)) ? p.filename : quote(p.filename); }
		if (r.chance(1, 8)) b += "; size=12";
		b += "\r\n";
		if (r.chance(1, 6)) b += "X-Extra: some \"value\"; a=b\r\n";
		if (p.has_mime) { b += r.chance(1, 3) ? "content-type: " : "Content-Type: "; b += p.mime; if (r.chance(1, 4)) b += "; charset=utf-8"; b += "\r\n"; }
		if (r.chance(1, 8)) b += "Content-Transfer-Encoding: binary\r\n";
		b += "\r\n";
		b += p.content;
		b += "\r\n";
	}
	b += "--" + boundary + "--\r\n";
	return b;
}
static std::vector<part> gen_parts(rng &r, std::string const &boundary, size_t maxlen)
{
	std::vector<part> v; int n = r.chance(1, 10) ? 0 : r.range(1, r.chance(1, 4) ? 10 : 3);
	for (int i = 0; i < n; i++) {
		part p;
		static char const *names[] = { "field", "a", "file1", "x y", "q\"uote", "back\\slash", "n;m=1", "\xc3\xa9t\xc3\xa9", "" };
		p.name = names[r.below(9)]; if (r.chance(1, 3)) p.name += std::to_string(i);
		p.has_filename = r.chance(1, 2); p.has_mime = p.has_filename ? r.chance(4, 5) : r.chance(1, 8);
		static char const *fn[] = { "a.txt", "C:\\dir\\f.bin", "my file.png", "x\"y.txt", "..", "\xe2\x82\xac.doc" };
		if (p.has_filename) p.filename = fn[r.below(6)];
		static char const *mimes[] = { "text/plain", "application/octet-stream", "image/png", "TEXT/HTML" };
		if (p.has_mime) p.mime = mimes[r.below(4)];
		p.content = gen_content(r, boundary, maxlen);
		v.push_back(p);
	}
	return v;
}
static std::string lower(std::string s) { for (auto &c : s) c = (char)tolower((unsigned char)c); return s; }

static std::string parts_json(std::vector<part> const &v) { std::string s = "["; for (size_t i = 0; i < v.size() && i < 6; i++) { if (i) s += ","; s += "{\"name\":" + jstr(v[i].name) + ",\"filename\":" + jstr(v[i].filename) + ",\"mime\":" + jstr(v[i].mime) + ",\"len\":" + std::to_string(v[i].content.size()) + "}"; } return s + "]"; }

static bool matches(std::vector<part> const &want, outcome const &got, std::string &why)
{
	if (got.status != 0) { why = "refused with " + std::to_string(got.status); return false; }
	if (got.parts.size() != want.size()) { why = "part count " + std::to_string(got.parts.size()) + " != " + std::to_string(want.size()); return false; }
	for (size_t i = 0; i < want.size(); i++) {
		part const &w = want[i], &g = got.parts[i];
		if (g.name != w.name) { why = "name of part " + std::to_string(i); return false; }
		if (g.filename != w.filename) { why = "filename of part " + std::to_string(i); return false; }
		if (g.has_mime != w.has_mime || lower(g.mime) != lower(w.mime)) { why = "mime of part " + std::to_string(i) + " got " + g.mime; return false; }
		if (g.content != w.content) { why = "content of part " + std::to_string(i) + " (" + std::to_string(g.content.size()) + " vs " + std::to_string(w.content.size()) + " bytes)"; return false; }
	}
	return true;
}

static std::vector<size_t> fixed_cuts(size_t n, size_t k) { std::vector<size_t> c; for (size_t p = k; p < n; p += k) c.push_back(p); return c; }

static void run_case(rng &r, long long idx, bool exhaustive_cuts)
{
	bool nq; std::string boundary = gen_boundary(r, nq);
	size_t maxlen = r.chance(1, 30) ? 262144 : (r.chance(1, 5) ? 5000 : 120);
	if (exhaustive_cuts) maxlen = 30;
	std::vector<part> parts = gen_parts(r, boundary, maxlen);
	if (exhaustive_cuts && parts.size() > 2) parts.resize(2);
	std::string body = encode(r, parts, boundary);
	std::string ct = std::string(r.chance(1, 3) ? "Multipart/Form-Data" : "multipart/form-data") + (r.chance(1, 3) ? ";boundary=" : "; boundary=") + ((nq || r.chance(1, 3)) ? quote(boundary) : boundary);
	long long mem_limit = r.chance(1, 2) ? 1 << 20 : (r.chance(1, 2) ? 64 : r.below(2000));
	std::string rp = "{\"content_type\":" + jstr(ct) + ",\"body\":\"" + hex(body.size() <= 3000 ? body : body.substr(0, 3000)) + "\",\"body_len\":" + std::to_string(body.size()) + ",\"mem_limit\":" + std::to_string(mem_limit) + "}";
	O().count("bodies");
	O().seen("bodies", fnv(body));
	std::string why;
	auto judge = [&](std::vector<size_t> const &cuts, char const *kind) {
		outcome o = parse(ct, body, cuts, mem_limit, 1LL << 40);
		O().count("partitions");
		if (o.spilled > 0) O().count("partitions_with_spill");
		if (!matches(parts, o, why)) {
			std::string cs; for (size_t i = 0; i < cuts.size() && i < 12; i++) cs += std::to_string(cuts[i]) + ",";
			O().viol(std::string("multipart:wellformed-body-") + (o.status ? "refused" : "decoded-differently"), why + " cuts=" + cs + " (" + kind + ") boundary=" + boundary, rp.substr(0, rp.size() - 1) + ",\"cuts\":[" + (cs.empty() ? "" : cs.substr(0, cs.size() - 1)) + "]}");
			return false;
		}
		return true;
	};
	if (!judge(std::vector<size_t>(), "one chunk")) return;
	size_t n = body.size();
	if (exhaustive_cuts && n <= 420) {
		for (size_t a = 1; a < n; a++) { std::vector<size_t> c(1, a); if (!judge(c, "1-cut")) return; }
		size_t step = n <= 160 ? 1 : (n / 80);
		for (size_t a = 1; a < n; a += step) for (size_t b = a + 1; b < n; b += step) { std::vector<size_t> c = { a, b }; if (!judge(c, "2-cut")) return; }
		O().count("bodies_with_all_cuts");
	} else {
		for (size_t k : { (size_t)1, (size_t)2, (size_t)3, (size_t)7, (size_t)64, (size_t)1024, (size_t)65536 }) if (k < n && n / k < 300000) { if (!judge(fixed_cuts(n, k), "fixed size")) return; }
		for (int t = 0; t < 12; t++) {
			std::vector<size_t> c; int k = r.range(1, 8);
			for (int i = 0; i < k; i++) c.push_back(1 + r.below((uint32_t)n));
			// cuts right around delimiter occurrences
			if (r.chance(1, 2)) { size_t p = body.find("\r\n--" + boundary, r.below((uint32_t)n)); if (p != std::string::npos) { c.push_back(p + r.below((uint32_t)boundary.size() + 8)); c.push_back(p + 1); } }
			std::sort(c.begin(), c.end());
			if (!judge(c, "random")) return;
		}
	}
	// in-memory limit straddled: large parts spill to temp files and still read back identically (checked above); a tiny limit with no temp dir is 413 territory and is exercised end-to-end
	// malformed variants: outcome must not depend on the partition, and the definitely-malformed ones must be refused
	for (int t = 0; t < 4 && n > 0; t++) {
		std::string m = body; char const *cls;
		switch (r.below(6)) {
		case 0: m.resize(1 + r.below((uint32_t)n - 1)); cls = "truncated"; break;
		case 1: m += r.chance(1, 2) ? "x" : "\r\n"; cls = "trailing-bytes"; break;
		case 2: { size_t p = m.rfind("--\r\n"); m.erase(p, 2); cls = "final-boundary-not-closed"; break; }
		case 3: m[r.below((uint32_t)n)] = (char)r.byte(); cls = 0; break;
		case 4: m.erase(r.below((uint32_t)n), 1); cls = 0; break;
		default: m.insert(r.below((uint32_t)n), 1, "\r\n-"[r.below(3)]); cls = 0;
		}
		outcome o1 = parse(ct, m, std::vector<size_t>(), mem_limit, 1LL << 40);
		O().count("malformed_bodies");
		std::string mrp = "{\"content_type\":" + jstr(ct) + ",\"body\":\"" + hex(m.substr(0, 3000)) + "\"}";
		if (cls && o1.status == 0) O().viol(std::string("multipart:malformed-body-accepted:") + cls, "boundary=" + boundary, mrp);
		if (o1.status) O().count("malformed_refused");
		for (int u = 0; u < 3 && m.size() > 1; u++) {
			std::vector<size_t> c; int k = r.range(1, 5); for (int i = 0; i < k; i++) c.push_back(1 + r.below((uint32_t)m.size())); std::sort(c.begin(), c.end());
			if (u == 0) c = fixed_cuts(m.size(), 1 + r.below(3));
			outcome o2 = parse(ct, m, c, mem_limit, 1LL << 40);
			O().count("partitions");
			if (!(o1 == o2)) { O().viol("multipart:outcome-depends-on-chunking", "one chunk: " + std::to_string(o1.status) + "/" + std::to_string(o1.parts.size()) + " parts, chunked: " + std::to_string(o2.status) + "/" + std::to_string(o2.parts.size()), mrp); break; }
		}
	}
	if (idx < 2) O().sample("{\"content_type\":" + jstr(ct) + ",\"parts\":" + parts_json(parts) + ",\"body_len\":" + std::to_string(n) + "}");
}

#ifdef VERIF_FUZZ
extern "C" int LLVMFuzzerTestOneInput(uint8_t const *data, size_t size)
{
	static bool init = false;
	if (!init) { char t[] = "/tmp/verif-mpfuzz-XXXXXX"; g_tmpdir = mkdtemp(t); init = true; atexit([]() { rmdir(g_tmpdir.c_str()); }); }     // spilled files are removed by the parser itself
	if (size < 3) return 0;
	std::string body((char const *)data + 2, size - 2);
	std::string ct = "multipart/form-data; boundary=XyZ";
	outcome o1 = parse(ct, body, std::vector<size_t>(), 64, 1LL << 40);
	rng r(data[0] * 256 + data[1]);
	std::vector<size_t> c; int k = r.range(1, 6); for (int i = 0; i < k; i++) c.push_back(1 + r.below((uint32_t)body.size())); std::sort(c.begin(), c.end());
	outcome o2 = parse(ct, body, c, 64, 1LL << 40);
	outcome o3 = parse(ct, body, fixed_cuts(body.size(), 1), 64, 1LL << 40);
	if (!(o1 == o2) || !(o1 == o3)) O().viol("multipart:outcome-depends-on-chunking", "fuzz", "{\"content_type\":" + jstr(ct) + ",\"body\":\"" + hex(body) + "\"}");
	if (O().viol_count) { fflush(stdout); abort(); }
	return 0;
}
#else
int main(int argc, char **argv)
{
	args a(argc, argv);
	g_tmpdir = a.str("tmp", "");
	if (g_tmpdir.empty()) { char t[] = "/tmp/verif-mp-XXXXXX"; g_tmpdir = mkdtemp(t); }
	else mkdir(g_tmpdir.c_str(), 0700);
	rng r(a.num("seed", 1));
	long long cases = a.num("cases", 200);
	std::string mode = a.str("mode", "random");
	if (mode == "one") {
		std::string body = unhex(a.str("body"));
		std::vector<size_t> cuts; std::string cs = a.str("cuts"); size_t p = 0;
		while (p < cs.size()) { cuts.push_back((size_t)atoll(cs.c_str() + p)); p = cs.find(',', p); if (p == std::string::npos) break; p++; }
		outcome o = parse(a.str("content_type"), body, cuts, a.num("mem_limit", 64), 1LL << 40);
		printf("{\"status\":%d,\"parts\":%s}\n", o.status, parts_json(o.parts).c_str());
	}
	else for (long long i = 0; i < cases; i++) { run_case(r, i, mode == "allcuts"); O().count("cases"); }
	rmdir(g_tmpdir.c_str());
	finish(a);
	return O().viol_count ? 1 : 0;
}
#endif
