// C01/C02 support monitor: the header-only HTTP header tokenizer (private/http_parser.h) and the
// content-type parser, driven exactly like http_api.cpp does (a vector that is replaced by every read).
// Oracle: the sequence of headers / the verdict must not depend on how the bytes are cut into reads;
// arbitrary bytes must not crash (ASan/UBSan, libFuzzer in the fuzz flavor).
#include "common/vh.h"
#include "http_parser.h"
#include <cppcms/http_content_type.h>
#include <algorithm>

using namespace vh;
using cppcms::http::impl::parser;

struct outcome {
	std::vector<std::string> headers; int verdict;   // 0 end_of_headers, 1 error, 2 needs more data
	size_t consumed;                                 // bytes of input used when the headers ended
	bool operator==(outcome const &o) const { return verdict == o.verdict && headers == o.headers && (verdict != 0 || consumed == o.consumed); }
};

static outcome run_parser(std::string const &input, std::vector<size_t> const &cuts)
{
	outcome o; o.verdict = 2; o.consumed = 0;
	std::vector<char> body; unsigned ptr = 0;
	parser p(body, ptr);
	size_t pos = 0, ci = 0;
	size_t fed = 0;
	for (;;) {
		// like http::some_headers_data_read: a fresh read replaces the (exhausted) buffer
		size_t end = ci < cuts.size() ? std::min(cuts[ci], input.size()) : input.size();
		ci++;
		if (end <= pos) { if (pos >= input.size()) return o; continue; }
		body.assign(input.begin() + pos, input.begin() + end); ptr = 0;
		fed = end; pos = end;
		for (;;) {
			int r = p.step();
			if (r == parser::more_data) break;
			if (r == parser::got_header) { o.headers.push_back(p.header_); continue; }
			if (r == parser::end_of_headers) { o.verdict = 0; o.consumed = fed - (body.size() - ptr); return o; }
			o.verdict = 1; return o;
		}
		if (pos >= input.size()) return o;
	}
}

static std::string gen_block(rng &r)
{
	static char const *lines[] = { "GET /a/b?x=1 HTTP/1.1", "POST /echo HTTP/1.0", "Host: localhost", "X-A: v", "X-Folded: a\r\n b\r\n\tc", "X-Quoted: \"a \\\" b\"", "X-Comment: (c (nested) \\) x) y",
		"Cookie: a=1; b=2", "Content-Length: 10", "X-Empty:", "X-Long: aaaaaaaaaaaaaaaaaaaaaaaaaaaaaaaaaaaaaaaaaaaaaaaaaaaaaaaaaaaaaaaa", "X-Q2: \"multi\r\nline\"", "Weird\rCR: x", "X-Tab:\tv", "X-8bit: \xc3\xa9\xff" };
	std::string s; int n = r.range(0, 8);
	for (int i = 0; i < n; i++) { s += lines[r.below(15)]; s += "\r\n"; }
	s += "\r\n";
	if (r.chance(1, 2)) s += "BODY-BYTES\r\n\r\nmore";
	if (r.chance(1, 3) && !s.empty()) { int k = r.range(1, 3); for (int i = 0; i < k; i++) { size_t p = r.below((uint32_t)s.size()); switch (r.below(4)) { case 0: s[p] = (char)r.byte(); break; case 1: s.erase(p, 1); break; case 2: s.insert(p, 1, "\r\n\"()\\ \t:"[r.below(9)]); break; default: s.insert(p, "\r\n"); } if (s.empty()) break; } }
	return s;
}

static void check_block(std::string const &s, rng &r, bool all_cuts)
{
	outcome base = run_parser(s, std::vector<size_t>());
	O().count("blocks");
	O().count(base.verdict == 0 ? "blocks_complete" : base.verdict == 1 ? "blocks_error" : "blocks_incomplete");
	std::string rp = "{\"input\":\"" + hex(s) + "\"}";
	auto cmp = [&](std::vector<size_t> const &cuts, char const *kind) {
		outcome o = run_parser(s, cuts);
		O().count("segmentations");
		if (!(o == base)) {
			std::string cs; for (size_t i = 0; i < cuts.size() && i < 10; i++) cs += std::to_string(cuts[i]) + ",";
			O().viol("headers:result-depends-on-read-boundaries", std::string(kind) + " cuts=" + cs + " one read: verdict " + std::to_string(base.verdict) + "/" + std::to_string(base.headers.size()) + " headers, segmented: " + std::to_string(o.verdict) + "/" + std::to_string(o.headers.size()), rp.substr(0, rp.size() - 1) + ",\"cuts\":\"" + cs + "\"}");
			return false;
		}
		return true;
	};
	size_t n = s.size();
	if (n < 2) return;
	if (all_cuts && n <= 400) { for (size_t a = 1; a < n; a++) if (!cmp(std::vector<size_t>(1, a), "1-cut")) return; }
	{ std::vector<size_t> ones; for (size_t a = 1; a < n; a++) ones.push_back(a); if (!cmp(ones, "1-byte reads")) return; }
	for (int t = 0; t < 8; t++) { std::vector<size_t> c; int k = r.range(1, 6); for (int i = 0; i < k; i++) c.push_back(1 + r.below((uint32_t)n - 1)); std::sort(c.begin(), c.end()); if (!cmp(c, "random")) return; }
	// content-type parser: arbitrary text must not crash; parameters of a well-formed value are found
	for (auto const &h : base.headers) { cppcms::http::content_type ct(h); (void)ct.media_type(); (void)ct.parameter_by_key("boundary"); (void)ct.charset(); O().count("content_type_parses"); }
}

#ifdef VERIF_FUZZ
extern "C" int LLVMFuzzerTestOneInput(uint8_t const *data, size_t size)
{
	if (size < 2) return 0;
	rng r(data[0] * 256 + data[1]);
	check_block(std::string((char const *)data + 2, size - 2), r, false);
	{ cppcms::http::content_type ct(std::string((char const *)data + 2, size - 2)); (void)ct.media_type(); (void)ct.parameter_by_key("boundary"); }
	if (O().viol_count) { fflush(stdout); abort(); }
	return 0;
}
#else
int main(int argc, char **argv)
{
	args a(argc, argv);
	rng r(a.num("seed", 1));
	long long cases = a.num("cases", 2000);
	if (a.has("input")) { check_block(unhex(a.str("input")), r, true); }
	else for (long long i = 0; i < cases; i++) { std::string s = gen_block(r); O().seen("blocks", fnv(s)); check_block(s, r, i % 4 == 0); if (i < 2) O().sample(jstr(s.substr(0, 200))); }
	// a few fixed content-type expectations
	{ cppcms::http::content_type ct("multipart/form-data; boundary=\"a b\"; charset=UTF-8"); if (ct.media_type() != "multipart/form-data" || ct.parameter_by_key("boundary") != "a b" || ct.charset() != "UTF-8" || !ct.is_multipart_form_data()) O().viol("headers:content-type-parse", "quoted boundary"); }
	{ cppcms::http::content_type ct("Application/X-WWW-Form-UrlEncoded"); if (!ct.is_form_urlencoded()) O().viol("headers:content-type-parse", "case-insensitive media type"); }
	finish(a);
	return O().viol_count ? 1 : 0;
}
#endif
