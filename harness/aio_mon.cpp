// C17 monitor: every handler given to booster::aio::io_service (posts, timers, descriptor waits) and every
// cppcms::thread_pool job runs exactly once. Unique ids, one loop thread, k producer threads, offline checker.
// Lost handlers are decided by ordering (sentinels), not by waiting.
#include "common/vh.h"
#include <algorithm>
#include <booster/aio/io_service.h>
#include <booster/aio/reactor.h>
#include <booster/aio/deadline_timer.h>
#include <booster/aio/stream_socket.h>
#include <booster/aio/buffer.h>
#include <booster/aio/aio_category.h>
#include <booster/posix_time.h>
#include <booster/system_error.h>
#include <cppcms/thread_pool.h>
#include <thread>
#include <atomic>
#include <mutex>
#include <condition_variable>
#include <sys/socket.h>
#include <unistd.h>
#include <fcntl.h>
#include <sched.h>

using namespace vh;
namespace aio = booster::aio;
using booster::ptime;

static std::atomic<int> g_yield_permille(0);
static std::atomic<long> g_yields(0);
static thread_local uint64_t t_rng = 0x2545F4914F6CDD1Dull;
static std::atomic<int> g_force_before_handler_us(0);   // the overtake scenario widens the pop-to-run window of the loop
extern "C" void cppcms_verif_yield(char const *site)
{
	int f = g_force_before_handler_us.load(std::memory_order_relaxed);
	if (f && site[5] == 'b' && site[12] == 'h') { usleep(f); return; }   // "loop.before_handler"
	int pm = g_yield_permille.load(std::memory_order_relaxed);
	if (!pm) return;
	t_rng ^= t_rng << 13; t_rng ^= t_rng >> 7; t_rng ^= t_rng << 17;
	if ((int)(t_rng % 1000) >= pm) return;
	g_yields++;
	if ((t_rng >> 20) & 1) sched_yield(); else usleep((t_rng >> 24) % 80);
}

enum kind_t { K_POST, K_POST_EV, K_TIMER_FIRE, K_TIMER_CANCEL, K_TIMER_RACE, K_IO_READ, K_IO_WRITE, K_IO_CANCEL, K_IO_RACE, K_IO_CLOSE };
static char const *KN[] = { "post", "post_event", "timer_fire", "timer_cancel_far", "timer_cancel_race", "io_readable", "io_writeable", "io_cancel", "io_cancel_race", "io_close" };
struct reg { int kind; double deadline; bool cancel_called; int fd; bool starved = false; };
struct run { long id; int err; std::string cat; double at; std::thread::id tid; };

struct logbook {
	std::mutex m;
	std::vector<reg> regs;                 // indexed by id
	std::vector<run> runs;                 // appended by handlers (loop thread) under the mutex
	long add(int kind, double deadline) { std::lock_guard<std::mutex> g(m); reg r; r.kind = kind; r.deadline = deadline; r.cancel_called = false; r.fd = -1; regs.push_back(r); return (long)regs.size() - 1; }
	void set_fd(long id, int fd) { std::lock_guard<std::mutex> g(m); regs[id].fd = fd; }
	void mark_cancel(long id) { std::lock_guard<std::mutex> g(m); regs[id].cancel_called = true; }
	void ran(long id, booster::system::error_code const &e) { run r; r.id = id; r.err = e.value(); r.cat = e ? e.category().name() : ""; r.at = ptime::to_number(ptime::now()); r.tid = std::this_thread::get_id(); std::lock_guard<std::mutex> g(m); runs.push_back(r); }
};
static std::atomic<long> g_progress(0);

struct ev_handler { logbook *lb; long id; std::atomic<int> *done; void operator()(booster::system::error_code const &e) const { lb->ran(id, e); if (done) done->store(1); g_progress++; } };
struct plain_handler { logbook *lb; long id; void operator()() const { lb->ran(id, booster::system::error_code()); g_progress++; } };

// Single-threaded scenarios end by ORDER, not by the clock: the handler that completes the expected set posts a two-hop stop. A far
// watchdog timer (10 s for a few microseconds of work) only bounds the wait for a handler that never comes.
struct chain_stop2 { aio::io_service *s; void operator()() const { s->stop(); } };
struct chain_stop1 { aio::io_service *s; void operator()() const { chain_stop2 h = { s }; s->post(h); } };
struct watchdog_stop { aio::io_service *s; void operator()(booster::system::error_code const &e) const { if (e) return; chain_stop1 h = { s }; s->post(h); } };
struct counted_handler { logbook *lb; long id; std::atomic<int> *remaining; aio::io_service *srv;
	void operator()(booster::system::error_code const &e) const { lb->ran(id, e); g_progress++; if (remaining->fetch_sub(1) == 1) { chain_stop1 h = { srv }; srv->post(h); } } };

static void loop_scenario(rng &r0, int reactor, int producers, int actions, std::string const &rname_hint)
{
	aio::io_service srv(reactor);
	logbook lb;
	std::thread::id loop_tid;
	std::atomic<bool> loop_started(false);
	std::thread loop([&]() { loop_tid = std::this_thread::get_id(); loop_started = true; srv.run(); });
	while (!loop_started.load()) sched_yield();
	std::string rname = srv.reactor_name();
	std::vector<std::thread> th;
	std::mutex fdm; std::vector<int> all_fds;
	uint64_t seeds[16]; for (int i = 0; i < 16; i++) seeds[i] = r0.next();
	int const NP = 3;
	struct pstate { std::atomic<int> done[3]; };
	std::vector<std::unique_ptr<pstate> > pstates;          // outlive the producer threads: handlers may run after a producer has finished
	for (int p = 0; p < producers; p++) pstates.push_back(std::unique_ptr<pstate>(new pstate()));
	for (int p = 0; p < producers; p++) th.push_back(std::thread([&, p]() {
		rng r(seeds[p % 16]);
		t_rng = r.next() | 1;
		// socket pairs owned by this producer
		std::atomic<int> *done = pstates[p]->done;
		int sp[NP][2]; bool armed[NP]; long pending_id[NP];
		for (int i = 0; i < NP; i++) { if (socketpair(AF_UNIX, SOCK_STREAM, 0, sp[i])) { perror("socketpair"); exit(3); } fcntl(sp[i][0], F_SETFL, O_NONBLOCK); done[i] = 1; armed[i] = false; pending_id[i] = -1; std::lock_guard<std::mutex> g(fdm); all_fds.push_back(sp[i][0]); all_fds.push_back(sp[i][1]); }
		std::vector<std::pair<int, long> > far_timers;   // (timer event id, handler id)
		for (int a = 0; a < actions; a++) {
			int k = r.below(100);
			if (k < 30) { long id = lb.add(K_POST, 0); plain_handler h = { &lb, id }; srv.post(h); }
			else if (k < 36) { long id = lb.add(K_POST_EV, 0); ev_handler h = { &lb, id, 0 }; srv.post(h, booster::system::error_code(aio::aio_error::eof, aio::aio_error_cat)); }
			else if (k < 56) {
				// timer that must fire: past, now, or shortly ahead (equal deadlines happen through coarse deltas)
				static double const d[] = { -0.5, 0, 0, 0.001, 0.002, 0.002, 0.005, 0.02 };
				ptime when = ptime::now() + ptime::from_number(d[r.below(8)]);
				long id = lb.add(K_TIMER_FIRE, ptime::to_number(when)); ev_handler h = { &lb, id, 0 };
				srv.set_timer_event(when, h);
			}
			else if (k < 66) {
				// timer far in the future, always cancelled: must deliver `canceled`
				ptime when = ptime::now() + ptime::seconds(3600);
				long id = lb.add(K_TIMER_CANCEL, ptime::to_number(when)); ev_handler h = { &lb, id, 0 };
				int tid = srv.set_timer_event(when, h);
				if (r.chance(1, 2)) { lb.mark_cancel(id); srv.cancel_timer_event(tid); } else far_timers.push_back(std::make_pair(tid, id));
			}
			else if (k < 72) {
				// a timer a little ahead, cancelled at once by its owner (a raw id may be reused once its timer has fired, so raw ids are
				// never cancelled after the deadline may have passed; cancel-versus-expiry races go through deadline_timer objects below)
				ptime when = ptime::now() + ptime::from_number(60 + r.below(3));   // far enough that a stalled producer still cancels first
				long id = lb.add(K_TIMER_CANCEL, ptime::to_number(when)); ev_handler h = { &lb, id, 0 };
				int tid = srv.set_timer_event(when, h);
				lb.mark_cancel(id); srv.cancel_timer_event(tid);
			}
			else {
				// descriptor waits on this producer's socket pairs: at most one pending readable per descriptor
				int i = r.below(NP);
				if (!done[i].load()) { if (r.chance(1, 2)) { usleep(50); } continue; }
				int fd = sp[i][0];
				// drain what earlier rounds wrote
				char buf[16]; while (read(fd, buf, sizeof buf) > 0) {}
#ifdef __SANITIZE_THREAD__
				// not under ThreadSanitizer: it models descriptor numbers as memory and reports close() in one thread against the queued
				// epoll_ctl of the cancellation in the loop thread - which is how basic_io_device::close() works (cancel is queued, ::close
				// is immediate) and is harmless by queue order (the cancellation runs before any request for the reused number)
				int what = r.below(10);
#else
				int what = r.below(11);
#endif
				done[i] = 0;
				if (what == 10) {
					// close with a wait pending, from this (non-loop) thread, and take the descriptor numbers again at once - what a server
					// does when one connection goes and the next is accepted: the old wait hears the cancellation, the new one its event
					long oid = lb.add(K_IO_CLOSE, 0); lb.set_fd(oid, fd);     // closed first: any cancellation / error code, never success
					{ ev_handler h = { &lb, oid, 0 }; srv.set_io_event(fd, aio::io_events::in, h); }
					if (r.chance(1, 2)) usleep(r.below(300));
					{ std::lock_guard<std::mutex> g(fdm); for (int e = 0; e < 2; e++) all_fds.erase(std::remove(all_fds.begin(), all_fds.end(), sp[i][e]), all_fds.end()); }
					lb.mark_cancel(oid);
					srv.cancel_io_events(fd); close(sp[i][0]);               // basic_io_device::close(): cancel (queued when the loop polls), then ::close at once
					close(sp[i][1]);
					if (socketpair(AF_UNIX, SOCK_STREAM, 0, sp[i])) { perror("socketpair"); exit(3); }
					fcntl(sp[i][0], F_SETFL, O_NONBLOCK);
					{ std::lock_guard<std::mutex> g(fdm); all_fds.push_back(sp[i][0]); all_fds.push_back(sp[i][1]); }
					fd = sp[i][0];
					long id = lb.add(K_IO_READ, 0); lb.set_fd(id, fd); pending_id[i] = id; ev_handler h = { &lb, id, &done[i] }; srv.set_io_event(fd, aio::io_events::in, h);
					if (write(sp[i][1], "n", 1) != 1) {}
					O().count("descriptors_closed_with_a_pending_wait_and_reopened");
				}
				else if (what < 4) { long id = lb.add(K_IO_READ, 0); lb.set_fd(id, fd); pending_id[i] = id; ev_handler h = { &lb, id, &done[i] }; srv.set_io_event(fd, aio::io_events::in, h); if (r.chance(1, 2)) usleep(r.below(300)); if (write(sp[i][1], "x", 1) != 1) {} }
				else if (what < 6) { long id = lb.add(K_IO_WRITE, 0); lb.set_fd(id, fd); pending_id[i] = id; ev_handler h = { &lb, id, &done[i] }; srv.set_io_event(fd, aio::io_events::out, h); }
				else if (what < 8) { long id = lb.add(K_IO_CANCEL, 0); lb.set_fd(id, fd); pending_id[i] = id; ev_handler h = { &lb, id, &done[i] }; srv.set_io_event(fd, aio::io_events::in, h); if (r.chance(1, 2)) usleep(r.below(300)); lb.mark_cancel(id); srv.cancel_io_events(fd); }
				else { long id = lb.add(K_IO_RACE, 0); lb.set_fd(id, fd); pending_id[i] = id; ev_handler h = { &lb, id, &done[i] }; srv.set_io_event(fd, aio::io_events::in, h); if (write(sp[i][1], "y", 1) != 1) {} if (r.chance(1, 2)) usleep(r.below(200)); lb.mark_cancel(id); srv.cancel_io_events(fd); }
				armed[i] = true;
			}
			if (r.chance(1, 6)) usleep(r.below(400));
		}
		for (auto const &ft : far_timers) { lb.mark_cancel(ft.second); srv.cancel_timer_event(ft.first); }
		// quiesce this producer's descriptors: cancel whatever is still armed (enqueues the cancellation before the sentinels)
		// ... but a wait whose event HAS happened (a byte was written for a readable wait, a socket pair is writable) is first given
		// its chance: bounded progress, 10 s for microseconds of work. Cancelling it at once would excuse a readiness that is never reported.
		for (int i = 0; i < NP; i++) if (!done[i].load() && pending_id[i] >= 0) {
			int kind; { std::lock_guard<std::mutex> g(lb.m); kind = lb.regs[pending_id[i]].kind; }
			if (kind != K_IO_READ && kind != K_IO_WRITE) continue;
			for (int w = 0; w < 100000 && !done[i].load(); w++) usleep(100);
			if (!done[i].load()) { std::lock_guard<std::mutex> g(lb.m); lb.regs[pending_id[i]].starved = true; }
		}
		for (int i = 0; i < NP; i++) if (!done[i].load()) { if (pending_id[i] >= 0) lb.mark_cancel(pending_id[i]); srv.cancel_io_events(sp[i][0]); }
	}));
	for (auto &t : th) t.join();
	// sentinels: S1's handler posts S2; a timer later than every must-fire deadline; when all three ran nothing registered can still be pending
	std::atomic<int> s2(0), st(0);
	struct s2h { std::atomic<int> *f; void operator()() const { f->store(1); } };
	struct s1h { aio::io_service *srv; std::atomic<int> *f; void operator()() const { s2h h = { f }; srv->post(h); } };
	struct sth { std::atomic<int> *f; void operator()(booster::system::error_code const &) const { f->store(1); } };
	{ s1h h = { &srv, &s2 }; srv.post(h); }
	{ sth h = { &st }; srv.set_timer_event(ptime::now() + ptime::from_number(0.08), h); }
	double t0 = ptime::to_number(ptime::now());
	bool watchdog = false;
	{
		// bounded progress: if no handler at all ran for 30 s although due handlers are queued, wake the loop with an unrelated post;
		// when that alone makes everything complete, the loop had gone to sleep past due work (a timeout computed as "forever")
		long last = g_progress.load(); double tl = t0; bool woke = false; double tw = 0;
		while (!(s2.load() && st.load())) {
			usleep(2000);
			double now = ptime::to_number(ptime::now());
			long p = g_progress.load();
			if (p != last) { last = p; tl = now; }
			if (!woke && now - tl > 30) { struct noop { void operator()() const {} }; srv.post(noop()); woke = true; tw = now; }
			if (now - t0 > 120) { watchdog = true; break; }
		}
		if (woke && !watchdog && ptime::to_number(ptime::now()) - tw < 10) {
			O().viol("aio:loop-slept-past-due-handlers-until-an-unrelated-wakeup", rname + ": no handler ran for 30 s with due timers and queued handlers pending; an unrelated post() released them", "{\"reactor\":\"" + rname + "\",\"producers\":" + std::to_string(producers) + "}");
			srv.stop(); loop.join(); for (int fd : all_fds) close(fd);
			return;
		}
	}
	if (!watchdog) { std::atomic<int> s4(0); s1h h = { &srv, &s4 }; srv.post(h); while (!s4.load()) { usleep(500); if (ptime::to_number(ptime::now()) - t0 > 240) { watchdog = true; break; } } }
	srv.stop();
	loop.join();
	for (int fd : all_fds) close(fd);
	if (watchdog) { O().count("loop_scenarios_inconclusive"); return; }
	// ---------------- offline check
	std::vector<int> count(lb.regs.size(), 0);
	std::vector<run const *> first(lb.regs.size(), (run const *)0);
	for (auto const &x : lb.runs) { count[x.id]++; if (!first[x.id]) first[x.id] = &x; }
	long long outcomes[10][3]; memset(outcomes, 0, sizeof outcomes);
	for (size_t id = 0; id < lb.regs.size(); id++) {
		reg const &g = lb.regs[id];
		std::string rp = "{\"reactor\":\"" + rname + "\",\"kind\":\"" + KN[g.kind] + "\",\"id\":" + std::to_string(id) + ",\"producers\":" + std::to_string(producers) + "}";
		O().count("handlers_registered");
		O().count(std::string("registered_") + KN[g.kind]);
		if (count[id] == 0) {
			std::string hist; int shown = 0;
			for (long q = (long)id - 1; q >= 0 && shown < 3; q--) if (lb.regs[q].fd == g.fd && g.fd >= 0) { hist = std::string(KN[lb.regs[q].kind]) + "(" + (first[q] ? std::to_string(first[q]->err) : "norun") + ") " + hist; shown++; }
			hist += "| THIS |"; shown = 0;
			for (size_t q = id + 1; q < lb.regs.size() && shown < 3; q++) if (lb.regs[q].fd == g.fd && g.fd >= 0) { hist += std::string(" ") + KN[lb.regs[q].kind] + "(" + (first[q] ? std::to_string(first[q]->err) : "norun") + ")"; shown++; }
			O().viol(std::string("aio:handler-never-ran:") + KN[g.kind], rname + " (sentinels posted after it have run); waits on the same descriptor number around it: " + hist, rp); continue; }
		if (count[id] > 1) { O().viol(std::string("aio:handler-ran-more-than-once:") + KN[g.kind], rname + " x" + std::to_string(count[id]), rp); continue; }
		run const &x = *first[id];
		if (x.tid != loop_tid) O().viol("aio:handler-ran-off-the-loop-thread", KN[g.kind], rp);
		bool canceled = x.err == aio::aio_error::canceled && x.cat == aio::aio_error_cat.name();
		bool success = x.err == 0;
		outcomes[g.kind][success ? 0 : canceled ? 1 : 2]++;
		switch (g.kind) {
		case K_POST: if (!success) O().viol("aio:post-delivered-error", rname, rp); break;
		case K_POST_EV: if (x.err != aio::aio_error::eof) O().viol("aio:post-lost-its-error-code", rname, rp); break;
		case K_TIMER_FIRE:
			if (!success) O().viol(canceled ? "aio:timer-nobody-cancelled-delivered-canceled" : "aio:timer-delivered-error", rname, rp);
			else if (x.at + 1e-6 < g.deadline) O().viol("aio:timer-fired-before-its-deadline", rname + " early by " + std::to_string(g.deadline - x.at), rp);
			break;
		case K_TIMER_CANCEL: if (!canceled) O().viol("aio:cancelled-far-timer-did-not-deliver-canceled", rname + " err=" + std::to_string(x.err), rp); break;
		case K_TIMER_RACE: if (!success && !canceled) O().viol("aio:timer-delivered-error", rname, rp); else if (success && x.at + 1e-6 < g.deadline) O().viol("aio:timer-fired-before-its-deadline", rname, rp); break;
		case K_IO_READ: case K_IO_WRITE:
			if (g.starved) { O().viol("aio:ready-descriptor-never-reported", rname + ": the descriptor was " + (g.kind == K_IO_READ ? "readable" : "writable") + " for 10 s and its wait was not completed", rp); break; }
			if (!success) { if (!canceled) O().viol("aio:io-wait-delivered-error", rname + " err=" + std::to_string(x.err), rp); else if (!g.cancel_called) {
				std::string hist; int shown = 0;
				for (long q = (long)id - 1; q >= 0 && shown < 4; q--) if (lb.regs[q].fd == g.fd) { hist = std::string(KN[lb.regs[q].kind]) + "(" + (first[q] ? std::to_string(first[q]->err) : "norun") + ") " + hist; shown++; }
				O().viol("aio:io-wait-nobody-cancelled-delivered-canceled", rname + " earlier waits on this descriptor: " + hist, rp); } }
			break;
		case K_IO_CANCEL: case K_IO_RACE: if (!success && !canceled) O().viol("aio:io-wait-delivered-error", rname + " err=" + std::to_string(x.err), rp); break;
		case K_IO_CLOSE: if (success) O().viol("aio:closed-descriptor-wait-delivered-success:number-reused-from-another-thread", rname + ": a wait armed, cancelled and its descriptor closed by a producer thread before anything happened on it got success - the readiness of the socket the same thread opened next under the same number", rp); break;
		}
	}
	for (int k = 0; k < 10; k++) { if (outcomes[k][0]) O().count(std::string("outcome_") + KN[k] + "_success", outcomes[k][0]); if (outcomes[k][1]) O().count(std::string("outcome_") + KN[k] + "_canceled", outcomes[k][1]); }
	O().count("loop_scenarios");
	O().seen("shapes", mix(fnv(rname), (uint64_t)producers * 131 + lb.regs.size()));
	(void)rname_hint;
}

// ---------------------------------------------------------------- deadline_timer / stream_socket objects used from the loop thread
static void object_scenario(rng &r, int reactor)
{
	aio::io_service srv(reactor);
	logbook lb;
	int const N = 40;
	std::vector<std::unique_ptr<aio::deadline_timer> > timers;
	std::vector<long> ids; std::vector<bool> cancelled(N, false);
	for (int i = 0; i < N; i++) { timers.push_back(std::unique_ptr<aio::deadline_timer>(new aio::deadline_timer(srv))); }
	for (int i = 0; i < N; i++) {
		double d = (double[]){ 0, 0, 0.001, 0.003, 0.003, 0.01 }[r.below(6)];
		timers[i]->expires_from_now(ptime::from_number(d));
		long id = lb.add(K_TIMER_RACE, ptime::to_number(timers[i]->expires_at())); ids.push_back(id);
		ev_handler h = { &lb, id, 0 }; timers[i]->async_wait(h);
	}
	// socket objects
	int sp[2]; if (socketpair(AF_UNIX, SOCK_STREAM, 0, sp)) { perror("socketpair"); exit(3); }
	aio::stream_socket s1(srv), s2(srv); s1.assign(sp[0]); s2.assign(sp[1]);
	long rid = lb.add(K_IO_CLOSE, 0); { ev_handler h = { &lb, rid, 0 }; s1.on_readable(h); }
	long wid = lb.add(K_IO_WRITE, 0); { ev_handler h = { &lb, wid, 0 }; s2.on_writeable(h); }
	// a handler on the loop thread cancels some timers (also ones that may already have expired) and closes the socket with a pending wait
	struct ctl { std::vector<std::unique_ptr<aio::deadline_timer> > *t; std::vector<bool> *c; logbook *lb; std::vector<long> *ids; aio::stream_socket *s; uint64_t seed; void operator()() const { rng q(seed); for (size_t i = 0; i < t->size(); i++) if (q.chance(1, 3)) { (*c)[i] = true; lb->mark_cancel((*ids)[i]); (*t)[i]->cancel(); } s->close(); } };
	ctl c = { &timers, &cancelled, &lb, &ids, &s1, r.next() };
	if (r.chance(1, 2)) srv.post(c); else { ptime::millisleep(2); srv.post(c); }
	// the end of the scenario is decided by order, not by the wall clock: when the (latest) timer fires it posts a handler that posts
	// the handler that stops the loop, so everything that was ready or queued by then runs first even if the loop started late
	struct stop2 { aio::io_service *s; void operator()() const { s->stop(); } };
	struct stop1 { aio::io_service *s; void operator()() const { stop2 h = { s }; s->post(h); } };
	struct stopper { aio::io_service *s; void operator()(booster::system::error_code const &) const { stop1 h = { s }; s->post(h); } };
	stopper st = { &srv };
	srv.set_timer_event(ptime::now() + ptime::from_number(0.05), st);
	srv.run();
	std::vector<int> count(lb.regs.size(), 0); std::vector<run const *> first(lb.regs.size(), (run const *)0);
	for (auto const &x : lb.runs) { count[x.id]++; if (!first[x.id]) first[x.id] = &x; }
	for (size_t id = 0; id < lb.regs.size(); id++) {
		std::string rp = "{\"scenario\":\"objects\",\"reactor\":" + std::to_string(reactor) + ",\"kind\":\"" + KN[lb.regs[id].kind] + "\"}";
		O().count("handlers_registered");
		if (count[id] != 1) { O().viol(count[id] ? "aio:handler-ran-more-than-once:object" : "aio:handler-never-ran:object", KN[lb.regs[id].kind], rp); continue; }
		run const &x = *first[id];
		bool canceled = x.err == aio::aio_error::canceled;
		if (lb.regs[id].kind == K_TIMER_RACE) {
			if (x.err && !canceled) O().viol("aio:timer-delivered-error", "object", rp);
			if (canceled && !lb.regs[id].cancel_called) O().viol("aio:timer-nobody-cancelled-delivered-canceled", "object", rp);
			if (!x.err && x.at + 1e-6 < lb.regs[id].deadline) O().viol("aio:timer-fired-before-its-deadline", "object", rp);
		}
		if (lb.regs[id].kind == K_IO_CLOSE && !x.err) O().viol("aio:closed-descriptor-wait-delivered-success", "object", rp);
	}
	O().count("object_scenarios");
}

// A descriptor request must never overtake an earlier one, also not one the loop has already taken from its queue:
// wait A is satisfied by data while its owner cancels (A may deliver success or canceled); the owner then arms wait B on
// the same descriptor, which nobody cancels: B must stay pending until data arrives and then deliver success.
static void overtake_scenario(rng &r, int reactor, int iterations)
{
	aio::io_service srv(reactor);
	logbook lb;
	std::atomic<bool> started(false);
	std::thread loop([&]() { started = true; srv.run(); });
	while (!started.load()) sched_yield();
	int sp[2]; if (socketpair(AF_UNIX, SOCK_STREAM, 0, sp)) { perror("socketpair"); exit(3); }
	fcntl(sp[0], F_SETFL, O_NONBLOCK);
	g_force_before_handler_us = 120;
	struct noop { void operator()() const {} };
	std::string rp = "{\"scenario\":\"overtake\",\"reactor\":" + std::to_string(reactor) + "}";
	bool bad = false;
	for (int it = 0; it < iterations && !bad; it++) {
		std::atomic<int> da(0), db(0);
		long ia = lb.add(K_IO_RACE, 0); { ev_handler h = { &lb, ia, &da }; srv.set_io_event(sp[0], aio::io_events::in, h); }
		if (write(sp[1], "y", 1) != 1) {}
		usleep(r.below(400));
		int posts = r.below(3); for (int k = 0; k < posts; k++) srv.post(noop());
		lb.mark_cancel(ia); srv.cancel_io_events(sp[0]);
		double t0 = ptime::to_number(ptime::now());
		while (!da.load()) { sched_yield(); if (ptime::to_number(ptime::now()) - t0 > 60) { O().count("overtake_inconclusive"); bad = true; break; } }
		if (bad) break;
		char buf[8]; while (read(sp[0], buf, sizeof buf) > 0) {}
		usleep(r.below(300));
		long ib = lb.add(K_IO_READ, 0); { ev_handler h = { &lb, ib, &db }; srv.set_io_event(sp[0], aio::io_events::in, h); }
		usleep(300 + r.below(300));
		bool early = db.load();
		if (write(sp[1], "x", 1) != 1) {}
		t0 = ptime::to_number(ptime::now());
		while (!db.load()) { sched_yield(); if (ptime::to_number(ptime::now()) - t0 > 60) { O().viol("aio:handler-never-ran:io_readable", "overtake scenario: the wait armed after a cancel never ran though data arrived", rp); bad = true; break; } }
		if (bad) break;
		while (read(sp[0], buf, sizeof buf) > 0) {}
		int eb = -1; { std::lock_guard<std::mutex> g(lb.m); for (auto const &x : lb.runs) if (x.id == ib) eb = x.err; }
		O().count("overtake_iterations"); O().count("handlers_registered", 2);
		if (eb == aio::aio_error::canceled) { O().viol("aio:io-wait-nobody-cancelled-delivered-canceled", "overtake scenario: cancel issued before the wait was armed cancelled it", rp); bad = true; }
		else if (eb != 0) { O().viol("aio:io-wait-delivered-error", "overtake scenario err=" + std::to_string(eb), rp); bad = true; }
		else if (early) { O().viol("aio:io-wait-delivered-success-without-event", "overtake scenario", rp); bad = true; }
	}
	g_force_before_handler_us = 0;
	srv.stop(); loop.join();
	close(sp[0]); close(sp[1]);
	std::vector<int> count(lb.regs.size(), 0);
	for (auto const &x : lb.runs) count[x.id]++;
	if (!bad) for (size_t id = 0; id < count.size(); id++) if (count[id] != 1) { O().viol(count[id] ? "aio:handler-ran-more-than-once:io" : "aio:handler-never-ran:io", "overtake scenario", rp); break; }
	O().count("overtake_scenarios");
}

// Descriptor requests made before run() (or between reset() and run()) are queued; when the descriptor is closed again before
// the loop starts, its number is free for the loop's own wake-up pipe. The queued requests must not disturb the pipe: a post()
// from another thread has to be delivered promptly afterwards. A safety timer wakes the loop after 6 s so that a lost
// wake-up shows as lateness instead of a stuck thread.
static void prerun_scenario(rng &r, int reactor)
{
	aio::io_service srv(reactor);
	logbook lb;
	int pairs = r.range(1, 3);
	std::vector<long> ids;
	for (int i = 0; i < pairs; i++) {
		int sp[2]; if (socketpair(AF_UNIX, SOCK_STREAM, 0, sp)) { perror("socketpair"); exit(3); }
		aio::stream_socket s(srv); s.assign(sp[0]);
		long id = lb.add(K_IO_CLOSE, 0); ids.push_back(id);
		ev_handler h = { &lb, id, 0 };
		if (r.chance(1, 2)) s.on_readable(h); else s.on_writeable(h);
		s.close();
		close(sp[1]);
	}
	std::atomic<int> posted_ran(0);
	struct mark { std::atomic<int> *f; void operator()() const { f->store(1); } };
	// re-arms itself: with a lost wake-up pipe neither post() nor stop() can wake the loop, only a timer can
	struct safety { aio::io_service *s; void operator()(booster::system::error_code const &e) const { if (e) return; safety again = { s }; s->set_timer_event(ptime::now() + ptime::from_number(1.0), again); } };
	{ safety first = { &srv }; srv.set_timer_event(ptime::now() + ptime::from_number(6.0), first); }
	std::atomic<bool> started(false);
	std::thread loop([&]() { started = true; srv.run(); });
	while (!started.load()) sched_yield();
	usleep(100000);                                   // let the loop drain its queue and go to sleep
	double t0 = ptime::to_number(ptime::now());
	{ mark m = { &posted_ran }; srv.post(m); }
	while (!posted_ran.load() && ptime::to_number(ptime::now()) - t0 < 20) usleep(1000);
	double waited = ptime::to_number(ptime::now()) - t0;
	srv.stop(); loop.join();
	std::string rp = "{\"scenario\":\"prerun\",\"reactor\":" + std::to_string(reactor) + ",\"sockets_closed_before_run\":" + std::to_string(pairs) + "}";
	O().count("prerun_scenarios"); O().count("handlers_registered", pairs + 1);
	if (!posted_ran.load()) O().viol("aio:handler-never-ran:post", "posted from another thread after descriptor requests were queued and their sockets closed before run()", rp);
	else if (waited > 4.0) O().viol("aio:post-not-delivered-until-an-unrelated-wakeup", "a handler posted from another thread ran only after " + std::to_string(waited) + " s, when the safety timer woke the loop", rp);
	std::vector<int> count(lb.regs.size(), 0); for (auto const &x : lb.runs) count[x.id]++;
	for (long id : ids) if (count[id] != 1) O().viol(count[id] ? "aio:handler-ran-more-than-once:io" : "aio:handler-never-ran:io", "wait armed and socket closed before run()", rp);
	for (auto const &x : lb.runs) if (!x.err) O().viol("aio:closed-descriptor-wait-delivered-success", "prerun", rp);
}

// The peer writes its last bytes and closes: the descriptor is readable (and hung up). The wait for readability
// happened - it must be delivered as success and the bytes must be readable, on every back-end alike.
static void hangup_scenario(rng &r, int reactor)
{
	for (int variant = 0; variant < 4; variant++) {
		aio::io_service srv(reactor);
		int sp[2]; if (socketpair(AF_UNIX, SOCK_STREAM, 0, sp)) { perror("socketpair"); exit(3); }
		aio::stream_socket s(srv); s.assign(sp[0]);
		bool before = variant & 1, some = variant & 2;
		int n = r.range(1, 2000);
		std::string data(n, 'd');
		if (before) { if (write(sp[1], data.data(), data.size()) != (ssize_t)data.size()) {} close(sp[1]); }
		struct result { int runs, err; size_t got; std::string cat; } res = { 0, 0, 0, "" };
		std::vector<char> buf(4096);
		struct rd { result *r; aio::stream_socket *s; std::vector<char> *buf; aio::io_service *srv;
			void operator()(booster::system::error_code const &e) const { r->runs++; r->err = e.value(); r->cat = e ? e.category().name() : ""; if (!e) { booster::system::error_code e2; r->got = s->read_some(aio::buffer(*buf), e2); } srv->stop(); } };
		struct rs { result *r; aio::io_service *srv; void operator()(booster::system::error_code const &e, size_t k) const { r->runs++; r->err = e.value(); r->cat = e ? e.category().name() : ""; r->got = k; srv->stop(); } };
		if (some) { rs h = { &res, &srv }; s.async_read_some(aio::buffer(buf), h); } else { rd h = { &res, &s, &buf, &srv }; s.on_readable(h); }
		if (!before) {
			struct later { int fd; std::string const *d; void operator()() const { if (write(fd, d->data(), d->size()) != (ssize_t)d->size()) {} close(fd); } };
			later l = { sp[1], &data }; srv.post(l);
		}
		struct stop2 { aio::io_service *s; void operator()() const { s->stop(); } };
		struct stopper { aio::io_service *s; void operator()(booster::system::error_code const &) const { stop2 h = { s }; s->post(h); } };
		stopper st = { &srv }; srv.set_timer_event(ptime::now() + ptime::from_number(2.0), st);
		srv.run();
		O().count("handlers_registered"); O().count("hangup_cases");
		std::string rp = "{\"scenario\":\"hangup\",\"reactor\":" + std::to_string(reactor) + ",\"peer_closed_before_the_wait\":" + (before ? "true" : "false") + ",\"operation\":\"" + (some ? "async_read_some" : "on_readable") + "\",\"bytes\":" + std::to_string(n) + "}";
		if (res.runs != 1) O().viol(res.runs ? "aio:handler-ran-more-than-once:io" : "aio:handler-never-ran:io", "peer wrote and closed", rp);
		else if (res.err) O().viol("aio:readable-descriptor-delivered-as-error", "the peer wrote " + std::to_string(n) + " bytes and closed; the handler got error " + std::to_string(res.err) + " (" + res.cat + ") instead of the data", rp);
		else if (res.got == 0 || res.got > (size_t)n) O().viol("aio:readable-descriptor-had-no-data", "read " + std::to_string(res.got) + " of " + std::to_string(n), rp);
	}
	O().count("hangup_scenarios");
}

// A deadline_timer that is cancelled and armed again (the watchdog idiom): the completion of the cancelled wait is still queued
// when the new wait is armed; when it runs it must not make the NEW wait un-cancellable.
static void rearm_scenario(rng &r, int reactor)
{
	aio::io_service srv(reactor);
	logbook lb;
	aio::deadline_timer t(srv);
	int chain = r.range(1, 4);                 // how many cancel + re-arm rounds before the final cancel
	std::vector<long> ids;
	struct stop2 { aio::io_service *s; void operator()() const { s->stop(); } };
	struct stop1 { aio::io_service *s; void operator()() const { stop2 h = { s }; s->post(h); } };
	struct stopper { aio::io_service *s; void operator()(booster::system::error_code const &) const { stop1 h = { s }; s->post(h); } };
	struct final_cancel { aio::deadline_timer *t; logbook *lb; long id; void operator()() const { lb->mark_cancel(id); t->cancel(); } };
	std::atomic<int> remaining(chain + 1);
	struct arm { aio::io_service *srv; aio::deadline_timer *t; logbook *lb; std::vector<long> *ids; int chain; std::atomic<int> *remaining;
		void operator()() const {
			for (int i = 0; i < chain; i++) {
				t->expires_from_now(ptime::from_number(30));
				long id = lb->add(K_TIMER_CANCEL, 0); ids->push_back(id);
				counted_handler h = { lb, id, remaining, srv }; t->async_wait(h);
				lb->mark_cancel(id); t->cancel();
			}
			t->expires_from_now(ptime::from_number(30));
			long id = lb->add(K_TIMER_CANCEL, 0); ids->push_back(id);
			counted_handler h = { lb, id, remaining, srv }; t->async_wait(h);
			// the cancel of the last wait goes behind the queued completions of the cancelled ones
			final_cancel fc = { t, lb, id }; srv->post(fc);
		} };
	arm a = { &srv, &t, &lb, &ids, chain, &remaining };
	srv.post(a);
	watchdog_stop st = { &srv };
	srv.set_timer_event(ptime::now() + ptime::from_number(10), st);
	srv.run();
	std::vector<int> count(lb.regs.size(), 0); std::vector<run const *> first(lb.regs.size(), (run const *)0);
	for (auto const &x : lb.runs) { count[x.id]++; if (!first[x.id]) first[x.id] = &x; }
	std::string rp = "{\"scenario\":\"rearm\",\"reactor\":" + std::to_string(reactor) + ",\"cancel_and_rearm_rounds\":" + std::to_string(chain) + "}";
	for (size_t k = 0; k < ids.size(); k++) {
		long id = ids[k];
		O().count("handlers_registered");
		if (count[id] != 1) { O().viol(count[id] ? "aio:handler-ran-more-than-once:object" : "aio:handler-never-ran:object", "re-armed deadline_timer, wait " + std::to_string(k), rp); continue; }
		if (first[id]->err != aio::aio_error::canceled) O().viol("aio:cancelled-timer-delivered-success", "deadline_timer cancelled " + std::to_string(k + 1 == ids.size() ? 1 : 0) + "... wait " + std::to_string(k) + " of " + std::to_string(ids.size()) + " (armed after a cancel) was cancelled before its deadline but its handler got error " + std::to_string(first[id]->err), rp);
	}
	O().count("rearm_scenarios");
}

// A second wait of the same kind armed on a descriptor while the first is still pending (an application that flushes twice
// without waiting, two readers of one socket): "each handler given to the event loop ... is invoked exactly once" - the one that
// does not get the event has to hear a cancellation/error code, it must not vanish.
static void double_wait_scenario(rng &r, int reactor)
{
	aio::io_service srv(reactor);
	logbook lb;
	int sv[2];
	if (socketpair(AF_UNIX, SOCK_STREAM, 0, sv)) return;
	bool reading = r.chance(1, 2);
	int waits = r.range(2, 3);
	std::vector<long> ids;
	struct stop2 { aio::io_service *s; void operator()() const { s->stop(); } };
	struct stop1 { aio::io_service *s; void operator()() const { stop2 h = { s }; s->post(h); } };
	struct stopper { aio::io_service *s; void operator()(booster::system::error_code const &) const { stop1 h = { s }; s->post(h); } };
	std::atomic<int> remaining(waits);
	struct arm { aio::io_service *srv; logbook *lb; std::vector<long> *ids; int fd, peer, waits; bool reading; std::atomic<int> *remaining;
		void operator()() const {
			for (int i = 0; i < waits; i++) {
				long id = lb->add(reading ? K_IO_READ : K_IO_WRITE, 0); ids->push_back(id);
				counted_handler h = { lb, id, remaining, srv };
				srv->set_io_event(fd, reading ? aio::io_events::in : aio::io_events::out, h);
			}
			if (reading) { char c = 'x'; if (write(peer, &c, 1) != 1) {} }
		} };
	arm a = { &srv, &lb, &ids, sv[0], sv[1], waits, reading, &remaining };
	srv.post(a);
	watchdog_stop st = { &srv };
	srv.set_timer_event(ptime::now() + ptime::from_number(10), st);
	srv.run();
	std::vector<int> count(lb.regs.size(), 0); std::vector<run const *> first(lb.regs.size(), (run const *)0);
	for (auto const &x : lb.runs) { count[x.id]++; if (!first[x.id]) first[x.id] = &x; }
	std::string rp = "{\"scenario\":\"double-wait\",\"reactor\":" + std::to_string(reactor) + ",\"waits\":" + std::to_string(waits) + ",\"reading\":" + (reading ? "true" : "false") + "}";
	int successes = 0;
	for (size_t k = 0; k < ids.size(); k++) {
		long id = ids[k];
		O().count("handlers_registered");
		if (count[id] != 1) { O().viol(count[id] ? "aio:handler-ran-more-than-once:double-wait" : "aio:handler-never-ran:double-wait", std::string(reading ? "read" : "write") + " wait " + std::to_string(k) + " of " + std::to_string(waits) + " armed on one descriptor", rp); continue; }
		if (first[id]->err == 0) successes++;
	}
	// (readiness is a level, not an event that gets used up: a wait armed after an earlier one was served sees the descriptor still ready,
	// so more than one success is legitimate)
	O().count("double_wait_successes", successes);
	O().count("double_wait_scenarios");
	srv.cancel_io_events(sv[0]);
	close(sv[0]); close(sv[1]);
}

// A descriptor cancelled and closed inside a handler while other handlers are queued, its number taken at once by a new socket
// that is armed and becomes readable (what a server does all day: close one connection, accept the next): the wait on the old
// descriptor was cancelled before anything happened on it, so its handler must hear the cancellation - not the new socket's event.
static void fd_reuse_scenario(rng &r, int reactor)
{
	aio::io_service srv(reactor);
	logbook lb;
	int a[2];
	if (socketpair(AF_UNIX, SOCK_STREAM, 0, a)) return;
	int behind = r.range(1, 3);
	long old_id = lb.add(K_IO_CANCEL, 0), new_id = -1;
	int b[2] = { -1, -1 };
	bool reused = false;
	struct stop2 { aio::io_service *s; void operator()() const { s->stop(); } };
	struct stop1 { aio::io_service *s; void operator()() const { stop2 h = { s }; s->post(h); } };
	struct stopper { aio::io_service *s; void operator()(booster::system::error_code const &) const { stop1 h = { s }; s->post(h); } };
	struct nop { void operator()() const {} };
	std::atomic<int> remaining(2);
	struct swap_fd { aio::io_service *srv; logbook *lb; int *a; int *b; long old_id; long *new_id; bool *reused; std::atomic<int> *remaining;
		void operator()() const {
			lb->mark_cancel(old_id);
			srv->cancel_io_events(a[0]);
			int number = a[0];
			close(a[0]); a[0] = -1;
			bool ok = socketpair(AF_UNIX, SOCK_STREAM, 0, b) == 0;
			if (ok && b[0] != number) { if (b[1] == number) std::swap(b[0], b[1]); else ok = false; }
			if (!ok) { remaining->fetch_sub(1); if (remaining->load() == 0) { chain_stop1 h = { srv }; srv->post(h); } return; }      // the number was not reused: only the old handler is awaited
			*reused = true;
			*new_id = lb->add(K_IO_READ, 0);
			counted_handler h = { lb, *new_id, remaining, srv };
			srv->set_io_event(b[0], aio::io_events::in, h);
			if (write(b[1], "NEW", 3) != 3) {}
		} };
	struct arm { aio::io_service *srv; logbook *lb; int *a; long old_id; swap_fd sw; int behind;
		void operator()() const {
			counted_handler h = { lb, old_id, sw.remaining, srv };
			srv->set_io_event(a[0], aio::io_events::in, h);
			srv->post(sw);
			for (int i = 0; i < behind; i++) srv->post(nop());
		} };
	swap_fd sw = { &srv, &lb, a, b, old_id, &new_id, &reused, &remaining };
	arm ar = { &srv, &lb, a, old_id, sw, behind };
	srv.post(ar);
	watchdog_stop st = { &srv };
	srv.set_timer_event(ptime::now() + ptime::from_number(10), st);
	srv.run();
	std::string rp = "{\"scenario\":\"fd-reuse\",\"reactor\":" + std::to_string(reactor) + ",\"handlers_queued_behind\":" + std::to_string(behind) + "}";
	if (reused) {
		std::vector<int> count(lb.regs.size(), 0); std::vector<run const *> first(lb.regs.size(), (run const *)0);
		for (auto const &x : lb.runs) { count[x.id]++; if (!first[x.id]) first[x.id] = &x; }
		O().count("handlers_registered", 2);
		if (count[old_id] != 1) O().viol(count[old_id] ? "aio:handler-ran-more-than-once:fd-reuse" : "aio:handler-never-ran:fd-reuse", "wait on the closed descriptor", rp);
		else if (first[old_id]->err != aio::aio_error::canceled) O().viol("aio:cancelled-wait-got-the-event-of-the-descriptor-that-reused-its-number", "the wait was cancelled and its descriptor closed before anything happened on it; its handler got error " + std::to_string(first[old_id]->err), rp);
		if (count[new_id] != 1) O().viol(count[new_id] ? "aio:handler-ran-more-than-once:fd-reuse" : "aio:handler-never-ran:fd-reuse", "wait on the new descriptor with the same number", rp);
		else if (first[new_id]->err != 0) O().viol("aio:readable-descriptor-delivered-error:fd-reuse", "error " + std::to_string(first[new_id]->err), rp);
		O().count("fd_reuse_scenarios");
	} else O().count("fd_reuse_scenarios_number_not_reused");
	if (b[0] >= 0) { srv.cancel_io_events(b[0]); close(b[0]); close(b[1]); }
	if (a[0] >= 0) close(a[0]);
	close(a[1]);
}

// Timers with nearly equal deadlines on an otherwise quiet loop: the loop must not go to sleep past the second one.
// Bounded progress instead of "eventually": both handlers are awaited for 10 s; if they are still missing, one unrelated
// post() is made - when that alone releases them the loop had computed a sleep that ignored a due timer.
static void near_deadline_scenario(rng &r, int reactor, int pairs)
{
	aio::io_service srv(reactor);
	logbook lb;
	std::atomic<bool> started(false);
	std::thread loop([&]() { started = true; srv.run(); });
	while (!started.load()) sched_yield();
	std::string rp = "{\"scenario\":\"near_deadlines\",\"reactor\":" + std::to_string(reactor) + "}";
	bool bad = false;
	for (int it = 0; it < pairs && !bad; it++) {
		std::atomic<int> d1(0), d2(0), d3(0);
		ptime base = ptime::now() + ptime::from_number(0.002);
		int gap_us = (int[]){ 1, 1, 2, 5, 30, 0 }[r.below(6)];
		long i1 = lb.add(K_TIMER_FIRE, ptime::to_number(base)); { ev_handler h = { &lb, i1, &d1 }; srv.set_timer_event(base, h); }
		ptime second = base + ptime::microseconds(gap_us);
		long i2 = lb.add(K_TIMER_FIRE, ptime::to_number(second)); { ev_handler h = { &lb, i2, &d2 }; srv.set_timer_event(second, h); }
		bool three = r.chance(1, 3);
		if (three) { ptime third = second + ptime::microseconds(1); long i3 = lb.add(K_TIMER_FIRE, ptime::to_number(third)); ev_handler h = { &lb, i3, &d3 }; srv.set_timer_event(third, h); } else d3 = 1;
		double t0 = ptime::to_number(ptime::now());
		while (!(d1.load() && d2.load() && d3.load()) && ptime::to_number(ptime::now()) - t0 < 10) usleep(200);
		O().count("near_deadline_groups"); O().count("handlers_registered", three ? 3 : 2);
		if (d1.load() && d2.load() && d3.load()) continue;
		struct noop { void operator()() const {} };
		srv.post(noop());
		double t1 = ptime::to_number(ptime::now());
		while (!(d1.load() && d2.load() && d3.load()) && ptime::to_number(ptime::now()) - t1 < 5) usleep(200);
		if (d1.load() && d2.load() && d3.load()) O().viol("aio:loop-slept-past-due-handlers-until-an-unrelated-wakeup", "timers " + std::to_string(gap_us) + " us apart on a quiet loop: not all handlers ran within 10 s of the deadline; an unrelated post() released them", rp);
		else O().count("near_deadline_inconclusive");
		bad = true;
	}
	srv.stop(); loop.join();
	if (!bad) {
		std::vector<int> count(lb.regs.size(), 0);
		for (auto const &x : lb.runs) { count[x.id]++; if (x.err) O().viol("aio:timer-delivered-error", "near deadlines", rp); else if (x.at + 1e-6 < lb.regs[x.id].deadline) O().viol("aio:timer-fired-before-its-deadline", "near deadlines", rp); }
		for (size_t id = 0; id < count.size(); id++) if (count[id] != 1) { O().viol(count[id] ? "aio:handler-ran-more-than-once:timer_fire" : "aio:handler-never-ran:timer_fire", "near deadlines", rp); break; }
	}
	O().count("near_deadline_scenarios");
}

// Two timers expire in the same loop iteration; the first one's handler arms fresh timers and then cancels the second timer
// (whose handler is already queued, which the caller cannot know). None of the fresh timers was cancelled by anybody.
static void slot_reuse_scenario(rng &r, int reactor, int far_count)
{
	aio::io_service srv(reactor);
	logbook lb;
	std::vector<std::unique_ptr<aio::deadline_timer> > far, fresh;
	for (int i = 0; i < far_count; i++) { far.push_back(std::unique_ptr<aio::deadline_timer>(new aio::deadline_timer(srv))); far.back()->expires_from_now(ptime::seconds(3600)); long id = lb.add(K_TIMER_CANCEL, 0); ev_handler h = { &lb, id, 0 }; far.back()->async_wait(h); }
	aio::deadline_timer ta(srv), t1(srv);
	ptime d = ptime::now() - ptime::milliseconds(5);
	ta.expires_at(d); t1.expires_at(d + ptime::milliseconds(1));
	int K = r.range(10, 60);
	std::vector<long> fresh_ids;
	struct first_handler { aio::io_service *srv; aio::deadline_timer *t1; std::vector<std::unique_ptr<aio::deadline_timer> > *fresh; std::vector<long> *ids; logbook *lb; int K; long my;
		void operator()(booster::system::error_code const &e) const {
			lb->ran(my, e);
			for (int i = 0; i < K; i++) { fresh->push_back(std::unique_ptr<aio::deadline_timer>(new aio::deadline_timer(*srv))); fresh->back()->expires_from_now(ptime::seconds(3600)); long id = lb->add(K_TIMER_FIRE, 0); ids->push_back(id); ev_handler h = { lb, id, 0 }; fresh->back()->async_wait(h); }
			t1->cancel();
		} };
	long ida = lb.add(K_TIMER_FIRE, ptime::to_number(d)), id1 = lb.add(K_TIMER_RACE, ptime::to_number(d));
	first_handler fh = { &srv, &t1, &fresh, &fresh_ids, &lb, K, ida };
	ta.async_wait(fh);
	{ ev_handler h = { &lb, id1, 0 }; t1.async_wait(h); }
	// the end of the scenario is decided by order, not by the wall clock: when the (latest) timer fires it posts a handler that posts
	// the handler that stops the loop, so everything that was ready or queued by then runs first even if the loop started late
	struct stop2 { aio::io_service *s; void operator()() const { s->stop(); } };
	struct stop1 { aio::io_service *s; void operator()() const { stop2 h = { s }; s->post(h); } };
	struct stopper { aio::io_service *s; void operator()(booster::system::error_code const &) const { stop1 h = { s }; s->post(h); } };
	stopper st = { &srv };
	srv.set_timer_event(ptime::now() + ptime::from_number(0.02), st);
	srv.run();
	std::vector<int> count(lb.regs.size(), 0); std::vector<run const *> first(lb.regs.size(), (run const *)0);
	for (auto const &x : lb.runs) { count[x.id]++; if (!first[x.id]) first[x.id] = &x; }
	std::string rp = "{\"scenario\":\"slot_reuse\",\"reactor\":" + std::to_string(reactor) + ",\"outstanding_timers\":" + std::to_string(far_count) + ",\"fresh_timers\":" + std::to_string(K) + "}";
	if (count[ida] != 1 || count[id1] != 1) O().viol("aio:handler-ran-other-than-once:slot-reuse", "", rp);
	for (long id : fresh_ids) {
		O().count("handlers_registered");
		if (count[id] > 1) O().viol("aio:handler-ran-more-than-once:object", "", rp);
		else if (count[id] == 1) O().viol(first[id]->err == aio::aio_error::canceled ? "aio:timer-nobody-cancelled-delivered-canceled:cancel-of-an-expired-timer-hit-a-reused-id" : "aio:timer-fired-before-its-deadline", "a timer armed for one hour ahead ran immediately with error " + std::to_string(first[id]->err), rp);
	}
	O().count("slot_reuse_scenarios");
}

// ---------------------------------------------------------------- worker pool
static void pool_scenario(rng &r0, int workers, int posters, int jobs)
{
	cppcms::thread_pool pool(workers);
	std::mutex m; std::vector<int> ran; std::vector<int> state;   // state: 0 posted 1 cancelled-ok
	struct jobrec { int id; bool cancelled_ok; };
	std::vector<std::vector<std::pair<int, int> > > posted(posters);   // (pool id, my id)
	std::atomic<int> next_id(0);
	std::vector<int> cancelled_ok_ids; std::mutex cm;
	std::atomic<int> throwers(0);
	uint64_t seeds[16]; for (int i = 0; i < 16; i++) seeds[i] = r0.next();
	std::vector<std::thread> th;
	for (int p = 0; p < posters; p++) th.push_back(std::thread([&, p]() {
		rng r(seeds[p % 16]);
		t_rng = r.next() | 1;
		for (int j = 0; j < jobs; j++) {
			int my = next_id++;
			bool thrower = r.chance(1, 8); int spin = r.chance(1, 4) ? r.below(200) : 0;
			if (thrower) throwers++;
			int pid = pool.post([&m, &ran, my, thrower, spin]() { if (spin) usleep(spin); { std::lock_guard<std::mutex> g(m); ran.push_back(my); } g_progress++; if (thrower) { if (my % 2) throw std::runtime_error("job failed"); else throw 42; } });
			if (r.chance(1, 4)) { if (r.chance(1, 2)) usleep(r.below(100)); if (pool.cancel(pid)) { std::lock_guard<std::mutex> g(cm); cancelled_ok_ids.push_back(my); } }
		}
	}));
	for (auto &t : th) t.join();
	// barrier sentinels: when all `workers` sentinels are running at once, every earlier job has been popped and finished
	std::mutex bm; std::condition_variable bc; int inside = 0; bool release = false;
	for (int w = 0; w < workers; w++) pool.post([&]() { std::unique_lock<std::mutex> g(bm); inside++; bc.notify_all(); while (!release) bc.wait(g); });
	bool watchdog = false;
	{ std::unique_lock<std::mutex> g(bm); if (!bc.wait_for(g, std::chrono::seconds(120), [&]() { return inside == workers; })) watchdog = true; release = true; bc.notify_all(); }
	pool.stop();
	if (watchdog) { O().count("pool_scenarios_inconclusive"); return; }
	int total = next_id.load();
	std::vector<int> cnt(total, 0); for (int id : ran) cnt[id]++;
	std::set<int> cok(cancelled_ok_ids.begin(), cancelled_ok_ids.end());
	for (int id = 0; id < total; id++) {
		std::string rp = "{\"scenario\":\"pool\",\"workers\":" + std::to_string(workers) + ",\"posters\":" + std::to_string(posters) + ",\"job\":" + std::to_string(id) + "}";
		O().count("jobs_posted");
		if (cnt[id] > 1) O().viol("pool:job-ran-more-than-once", "", rp);
		else if (cok.count(id)) { if (cnt[id]) O().viol("pool:successfully-cancelled-job-ran", "", rp); else O().count("jobs_cancelled"); }
		else if (cnt[id] == 0) O().viol("pool:job-never-ran", "all workers were inside barrier sentinels posted after it", rp);
		else O().count("jobs_ran");
	}
	O().count("jobs_throwing", throwers.load());
	O().count("pool_scenarios");
}

int main(int argc, char **argv)
{
	args a(argc, argv);
	rng r(a.num("seed", 1));
	g_yield_permille = (int)a.num("yield", 40);
	long long rounds = a.num("rounds", 3);
	int actions = (int)a.num("actions", 400);
	std::string mode = a.str("mode", "all");
	static int const reactors[] = { aio::reactor::use_epoll, aio::reactor::use_poll, aio::reactor::use_select };
	for (long long i = 0; i < rounds && O().viol_count < 10; i++) {
		for (int ri = 0; ri < 3; ri++) {
			if (mode == "all" || mode == "loop") loop_scenario(r, reactors[ri], r.range(1, (int)a.num("producers", 6)), actions, "");
			if (mode == "all" || mode == "hangup") hangup_scenario(r, reactors[ri]);
			if (mode == "all" || mode == "prerun") prerun_scenario(r, reactors[ri]);
			if (mode == "all" || mode == "rearm") for (int k = 0; k < 3; k++) rearm_scenario(r, reactors[ri]);
			if (mode == "all" || mode == "doublewait") for (int k = 0; k < 4; k++) double_wait_scenario(r, reactors[ri]);
			if (mode == "all" || mode == "fdreuse") for (int k = 0; k < 4; k++) fd_reuse_scenario(r, reactors[ri]);
			if (mode == "all" || mode == "near") near_deadline_scenario(r, reactors[ri], (int)a.num("near", 40));
			if (mode == "all" || mode == "overtake") overtake_scenario(r, reactors[ri], (int)a.num("overtake", 150));
			if (mode == "all" || mode == "objects") for (int k = 0; k < 5; k++) object_scenario(r, reactors[ri]);
			if (mode == "all" || mode == "objects" || mode == "reuse") for (int k = 0; k < 6; k++) slot_reuse_scenario(r, reactors[ri], (int[]){ 0, 50, 400, 900 }[r.below(4)]);
		}
		if (mode == "all" || mode == "pool") pool_scenario(r, r.range(1, 6), r.range(1, 6), actions);
	}
	O().count("yields_taken", g_yields.load());
	O().sample("{\"rounds\":" + std::to_string(rounds) + ",\"actions_per_producer\":" + std::to_string(actions) + ",\"reactors\":[\"epoll\",\"poll\",\"select\"]}");
	finish(a);
	return O().viol_count ? 1 : 0;
}
