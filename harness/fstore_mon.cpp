// C18 monitor: crash points of session_file_storage::save. Real crashes (child killed after exactly k
// bytes reached write()) and synthesized crash states (every prefix of the recorded write sequence, every
// byte prefix of the data area, subsets of touched 512-byte sectors), each judged by the real load();
// plus garbage collection against a directory model.
#include "common/vh.h"
#include "common/clock_shim.h"
#include "session_posix_file_storage.h"
#include <fcntl.h>
#include <unistd.h>
#include <stdarg.h>
#include <sys/syscall.h>
#include <sys/stat.h>
#include <sys/wait.h>
#include <dirent.h>
#include <errno.h>

using namespace vh;

// ---------------------------------------------------------------- shims (the static cppcms code binds to these)
static std::string g_dir;
static std::set<int> g_session_fds;
struct wrec { long off; std::string bytes; };
static std::vector<wrec> g_writes;
static bool g_record = false;
static long g_crash_after = -1;      // bytes still allowed before the simulated crash; -1 = off
static std::vector<std::string> g_paths_opened;

extern "C" int open(const char *path, int flags, ...)
{
	mode_t mode = 0;
	if (flags & O_CREAT) { va_list ap; va_start(ap, flags); mode = (mode_t)va_arg(ap, int); va_end(ap); }
	int fd = (int)syscall(SYS_openat, AT_FDCWD, path, flags, mode);
	if (fd >= 0 && !g_dir.empty() && strncmp(path, g_dir.c_str(), g_dir.size()) == 0) { g_session_fds.insert(fd); g_paths_opened.push_back(path); }
	return fd;
}
extern "C" int close(int fd) { g_session_fds.erase(fd); return (int)syscall(SYS_close, fd); }
extern "C" ssize_t write(int fd, const void *buf, size_t n)
{
	if (!g_session_fds.count(fd)) return syscall(SYS_write, fd, buf, n);
	if (g_crash_after >= 0) {
		if ((long)n > g_crash_after) { if (g_crash_after > 0) syscall(SYS_write, fd, buf, (size_t)g_crash_after); syscall(SYS_exit_group, 0); }
		g_crash_after -= (long)n;
	}
	if (g_record) { wrec w; w.off = (long)syscall(SYS_lseek, fd, 0, SEEK_CUR); w.bytes.assign((char const *)buf, n); g_writes.push_back(w); }
	return syscall(SYS_write, fd, buf, n);
}

// ---------------------------------------------------------------- helpers
static bool read_file(std::string const &p, std::string &out)
{
	int fd = (int)syscall(SYS_openat, AT_FDCWD, p.c_str(), O_RDONLY, 0); if (fd < 0) return false;
	out.clear(); char b[65536]; long n;
	while ((n = syscall(SYS_read, fd, b, sizeof b)) > 0) out.append(b, n);
	syscall(SYS_close, fd); return true;
}
static void put_file(std::string const &p, std::string const &bytes)
{
	int fd = (int)syscall(SYS_openat, AT_FDCWD, p.c_str(), O_CREAT | O_TRUNC | O_WRONLY, 0644);
	size_t off = 0; while (off < bytes.size()) { long n = syscall(SYS_write, fd, bytes.data() + off, bytes.size() - off); if (n <= 0) break; off += n; }
	syscall(SYS_close, fd);
}
static bool is_sid(std::string const &n) { if (n.size() != 32) return false; for (char ch : n) if (!isxdigit((unsigned char)ch)) return false; return true; }
static bool exists(std::string const &p) { struct stat st; return stat(p.c_str(), &st) == 0; }

struct saved { std::string payload; long deadline; };
struct case_ctx {
	std::string sid, path;
	std::vector<saved> history;     // every save ever issued for this sid (old ones and the in-flight one)
	std::string desc;
};

static long long g_states = 0;
// the real load() on the current file content
static void judge(case_ctx const &c, char const *state_kind, std::string const &state_desc)
{
	cppcms::sessions::session_file_storage_factory f(g_dir, 1, 1, false);
	booster::shared_ptr<cppcms::sessions::session_storage> st = f.get();
	bool had_file = exists(c.path);
	time_t dl = -5; std::string out = "UNSET";
	bool ok;
	std::string rp = "{\"case\":" + jstr(c.desc) + ",\"state\":" + jstr(std::string(state_kind) + ": " + state_desc) + "}";
	try { ok = st->load(c.sid, dl, out); }
	catch (std::exception const &e) { O().viol("fstore:load-threw", e.what(), rp); return; }
	g_states++;
	O().count(std::string("states_") + state_kind);
	long now = vclock::now();
	if (ok) {
		O().count("loads_returning_a_session");
		bool payload_known = false, deadline_known = false;
		for (auto const &s : c.history) { if (s.payload == out) payload_known = true; if (s.deadline == (long)dl) deadline_known = true; }
		if (!payload_known) O().viol("fstore:load-returned-mixture-or-wrong-length", "got " + std::to_string(out.size()) + " bytes " + hex(out.substr(0, 32)), rp);
		else if (!deadline_known) O().viol("fstore:load-returned-deadline-of-no-save", std::to_string((long)dl), rp);
		else if ((long)dl < now) O().viol("fstore:load-returned-expired-session", std::to_string((long)dl), rp);
	} else {
		O().count("loads_reporting_no_session");
		if (had_file && exists(c.path)) O().viol("fstore:unreadable-or-expired-file-not-removed-by-load", "", rp);
	}
}

static std::string gen_payload(rng &r, int cls)
{
	size_t n;
	switch (cls) { case 0: n = 0; break; case 1: n = r.range(1, 40); break; case 2: n = r.range(480, 530); break; case 3: n = r.range(1000, 1100); break;
	case 5: n = r.range(33000, 70000); O().count("cases_with_payload_over_32k"); break;     // sessions of tens of KiB: whatever treats "the first N bytes" specially shows here
	default: n = r.range(2000, 6000); }
	std::string s = r.bytes(n);
	if (r.chance(1, 3)) for (auto &ch : s) ch = (char)('a' + (unsigned char)ch % 3);   // low-entropy payloads make old/new mixtures more alike
	return s;
}

static void run_case(rng &r, long long idx, bool thorough)
{
	case_ctx c;
	char sid[40]; snprintf(sid, sizeof sid, "%016llx%016llx", (unsigned long long)r.next(), (unsigned long long)r.next());
	c.sid = sid; c.path = g_dir + "/" + c.sid;
	vclock::now() = 1600000000L + r.below(1000);
	long now = vclock::now();
	cppcms::sessions::session_file_storage_factory f(g_dir, 1, 1, false);
	booster::shared_ptr<cppcms::sessions::session_storage> st = f.get();
	// previous file state: absent, or one or two earlier saves (shorter / equal / longer than the new payload)
	int prev = r.below(4);
	std::string newp = gen_payload(r, r.chance(1, 8) ? 5 : r.below(5));
	saved nw; nw.payload = newp; nw.deadline = now + (r.chance(1, 6) ? -r.range(1, 50) : r.range(0, 5000));
	c.desc = "prev=" + std::to_string(prev) + " new_len=" + std::to_string(newp.size()) + " new_dl=" + std::to_string(nw.deadline - now);
	if (prev > 0) {
		int gens = r.range(1, 2);
		for (int g = 0; g < gens; g++) {
			saved o;
			switch (prev) {
			case 1: o.payload = gen_payload(r, 1); if (o.payload.size() >= newp.size() && newp.size() > 1) o.payload.resize(newp.size() / 2); break;   // shorter
			case 2: o.payload = r.bytes(newp.size()); if (r.chance(1, 2) && !newp.empty()) { o.payload = newp; o.payload[r.below((uint32_t)newp.size())] ^= 1; } break; // equal length
			default: o.payload = newp + r.bytes(r.range(1, 1500)); if (r.chance(1, 2)) o.payload = r.bytes(o.payload.size());                            // longer
			}
			o.deadline = now + (r.chance(1, 6) ? -r.range(1, 50) : r.range(0, 5000));
			st->save(c.sid, (time_t)o.deadline, o.payload);
			c.history.push_back(o);
			c.desc += " old_len=" + std::to_string(o.payload.size()) + " old_dl=" + std::to_string(o.deadline - now);
		}
	}
	std::string P; bool hadP = read_file(c.path, P);
	c.history.push_back(nw);
	// record the write sequence of the new save
	g_writes.clear(); g_record = true;
	st->save(c.sid, (time_t)nw.deadline, newp);
	g_record = false;
	std::vector<wrec> W = g_writes;
	std::string F; read_file(c.path, F);
	O().count("cases");
	O().seen("cases", mix(fnv(newp), fnv(P)));
	O().setmax("max_writes_per_save", (long long)W.size());
	if (W.empty() || W[0].off != 0 || W[0].bytes.size() != 16) { O().viol("harness:unexpected-write-pattern", "first write is not the 16-byte header at offset 0"); return; }
	if (idx < 2) O().sample("{\"case\":" + jstr(c.desc) + ",\"writes\":" + std::to_string(W.size()) + ",\"file_len_before\":" + std::to_string(hadP ? (long)P.size() : -1) + ",\"file_len_after\":" + std::to_string(F.size()) + "}");
	auto apply = [&](std::string base, bool base_exists, size_t nwrites, long partial) {
		// nwrites complete writes, then `partial` bytes of the next one (-1 = none)
		std::string s = base; bool any = base_exists;
		for (size_t i = 0; i < nwrites + (partial >= 0 ? 1 : 0) && i < W.size(); i++) {
			std::string const &b = W[i].bytes; size_t len = i < nwrites ? b.size() : (size_t)partial;
			if (s.size() < W[i].off + len) s.resize(W[i].off + len, '\0');
			memcpy(&s[W[i].off], b.data(), len); any = true;
		}
		if (any) put_file(c.path, s); else unlink(c.path.c_str());
	};
	// (ii-a) every prefix of the write sequence and every byte prefix of the data area (header write is atomic)
	apply(P, hadP, 0, -1); judge(c, "prefix", "nothing written (file created only)");
	if (!hadP) { put_file(c.path, ""); judge(c, "prefix", "empty file created"); }
	for (size_t i = 1; i <= W.size(); i++) {
		apply(P, hadP, i, -1); judge(c, "prefix", std::to_string(i) + " complete writes");
		if (i < W.size()) {
			size_t len = W[i].bytes.size();
			// every byte prefix for data areas up to 8 KiB in thorough (600 bytes in quick), about 3000 (300) evenly spread cuts beyond that
			size_t step = ((thorough && len <= 8192) || len <= 600) ? 1 : 1 + len / (thorough ? 3000 : 300);
			for (size_t k = 1; k < len; k += step) { apply(P, hadP, i, (long)k); judge(c, "byte_prefix", std::to_string(i) + " writes + " + std::to_string(k) + " bytes"); }
		}
	}
	// (ii-b) subsets of touched sectors reaching the disk (sector 0 carries the header and is atomic like any sector)
	{
		size_t flen = F.size();
		size_t nsect = (flen + 511) / 512;
		std::vector<size_t> touched;
		for (size_t s = 0; s < nsect; s++) { bool t = false; for (auto const &w : W) if ((size_t)w.off < (s + 1) * 512 && w.off + w.bytes.size() > s * 512) t = true; if (t) touched.push_back(s); }
		size_t nt = touched.size();
		unsigned long long total = nt >= 20 ? 0 : (1ull << nt);
		int budget = thorough ? 4096 : 200;
		for (int it = 0; it < budget; it++) {
			unsigned long long mask;
			if (total && total <= (unsigned long long)budget) { if ((unsigned long long)it >= total) break; mask = it; }
			else mask = r.next();
			std::string s = hadP ? P : std::string();
			bool any_new = false;
			for (size_t j = 0; j < nt; j++) if (mask >> (j % 64) & 1) {
				size_t sct = touched[j], a = sct * 512, b = std::min(flen, a + 512);
				if (s.size() < b) s.resize(b, '\0');
				memcpy(&s[a], F.data() + a, b - a); any_new = true;
			}
			if (!hadP && !any_new) { put_file(c.path, ""); } else put_file(c.path, s);
			judge(c, "sector_subset", "mask=" + std::to_string(mask & ((nt >= 64) ? ~0ull : ((1ull << nt) - 1))) + " of " + std::to_string(nt) + " sectors");
		}
	}
	// (i) real crashes: a child repeats the save and dies after exactly k bytes reached write()
	{
		size_t total = 16 + newp.size();
		std::vector<size_t> ks = { 0, 16, total };
		int nk = thorough ? 40 : 6;
		for (int i = 0; i < nk && total > 16; i++) ks.push_back(16 + r.below((uint32_t)(total - 16) + 1));
		for (size_t k : ks) {
			if (hadP) put_file(c.path, P); else unlink(c.path.c_str());
			fflush(stdout);
			pid_t pid = fork();
			if (pid == 0) {
				g_crash_after = (long)k;
				try { cppcms::sessions::session_file_storage_factory f2(g_dir, 1, 1, false); f2.get()->save(c.sid, (time_t)nw.deadline, newp); } catch (...) {}
				syscall(SYS_exit_group, 0);
			}
			int status = 0; waitpid(pid, &status, 0);
			if (!WIFEXITED(status)) { O().viol("fstore:save-crashed-by-itself", "signal " + std::to_string(WTERMSIG(status))); continue; }
			judge(c, "real_crash", "process died after " + std::to_string(k) + " bytes");
		}
	}
	unlink(c.path.c_str());
}

static void run_gc(rng &r)
{
	// clean directory
	{ DIR *d = opendir(g_dir.c_str()); if (d) { while (dirent *e = readdir(d)) if (e->d_name[0] != '.') unlink((g_dir + "/" + e->d_name).c_str()); closedir(d); } }
	vclock::now() = 1600000000L;
	long now = vclock::now();
	cppcms::sessions::session_file_storage_factory f(g_dir, 1, 1, false);
	booster::shared_ptr<cppcms::sessions::session_storage> st = f.get();
	std::map<std::string, int> expect;   // name -> 1 must stay, 0 must go, 2 either
	int n = r.range(3, 25);
	for (int i = 0; i < n; i++) {
		char sid[40]; snprintf(sid, sizeof sid, "%016llx%016llx", (unsigned long long)r.next(), (unsigned long long)r.next());
		std::string name = sid;
		switch (r.below(9)) {
		case 0: case 1: case 2: st->save(name, (time_t)(now + r.range(0, 1000)), r.bytes(r.below(600))); expect[name] = 1; break;       // live
		case 3: st->save(name, (time_t)(now - r.range(1, 1000)), r.bytes(r.below(600))); expect[name] = 0; break;                        // expired
		case 4: put_file(g_dir + "/" + name, r.bytes(r.below(8))); expect[name] = 0; break;                                                // timestamp unreadable
		case 5: { std::string g = r.bytes(r.range(8, 200)); int64_t ts; memcpy(&ts, g.data(), 8); put_file(g_dir + "/" + name, g); expect[name] = ts < now ? 0 : 2; break; }  // garbage, well-formed name
		case 6: { static char const *nm[] = { "README", "0123456789abcdef0123456789abcde", "0123456789abcdef0123456789abcdef0", ".hidden", "g123456789abcdef0123456789abcdef", "0123456789abcdef0123456789abcdef.tmp" }; name = nm[r.below(6)]; put_file(g_dir + "/" + name, r.bytes(r.below(40))); expect[name] = 1; break; }
		case 7: st->save(name, (time_t)now, "deadline equals now"); expect[name] = 1; break;
		default: { st->save(name, (time_t)(now + 5), "x"); time_t t; std::string o; st->load(name, t, o); expect[name] = 1; }
		}
	}
	int when = r.below(3);
	if (when == 1) vclock::now() += 0;
	f.gc_job();
	O().count("gc_runs");
	for (auto const &e : expect) {
		bool there = exists(g_dir + "/" + e.first);
		O().count("gc_files_judged");
		if (e.second == 1 && !there) O().viol(is_sid(e.first) ? "fstore:gc-removed-live-session" : "fstore:gc-removed-foreign-file", e.first);
		if (e.second == 0 && there) O().viol("fstore:gc-kept-expired-or-unreadable-file", e.first);
	}
	// live sessions still load after gc
	for (auto const &e : expect) if (e.second == 1 && is_sid(e.first)) { time_t t; std::string o; if (!st->load(e.first, t, o)) { O().viol("fstore:live-session-unloadable-after-gc", e.first); break; } }
	{ DIR *d = opendir(g_dir.c_str()); if (d) { while (dirent *e = readdir(d)) if (e->d_name[0] != '.' || strcmp(e->d_name, ".hidden") == 0) unlink((g_dir + "/" + e->d_name).c_str()); closedir(d); } }
}

// a garbage file with a well-formed name whose 32-bit size field is far beyond the file's length: 16 bytes on disk that claim
// 2^31 bytes of data; the checksum stored is the CRC-32 of 2^31 zero bytes, which is what a reader that "reads" nothing
// into a zero-filled buffer would compute. load() must report no session (and remove the file), not hand out 2 GiB of zeros.
static void huge_size_case()
{
	cppcms::sessions::session_file_storage_factory f(g_dir, 1, 1, false);
	booster::shared_ptr<cppcms::sessions::session_storage> st = f.get();
	struct { int64_t timeout; uint32_t crc; uint32_t size; } hdr = { (int64_t)vclock::now() + 1000, 0x4dbdf21cu, 0x80000000u };
	static struct { uint32_t size, crc; } const variants[] = { { 0x80000000u, 0x4dbdf21cu } };
	for (auto const &v : variants) {
		std::string sid = "0000000000000000000000000000abcd", path = g_dir + "/" + sid;
		hdr.size = v.size; hdr.crc = v.crc;
		put_file(path, std::string((char const *)&hdr, sizeof hdr));
		time_t t = 0; std::string out;
		bool ok = false;
		try { ok = st->load(sid, t, out); } catch (std::exception const &e) { O().viol("fstore:load-threw-on-garbage-file", e.what()); }
		O().count("garbage_size_field_cases");
		if (ok) O().viol("fstore:garbage-file-accepted:size-field-beyond-file-length", "a 16-byte file claiming " + std::to_string(v.size) + " data bytes was loaded as a session of " + std::to_string(out.size()) + " bytes", "{\"header_hex\":\"" + hex(std::string((char const *)&hdr, sizeof hdr)) + "\"}");
		else if (exists(path)) O().viol("fstore:unreadable-file-not-removed-by-load", "size field beyond file length");
		syscall(SYS_unlink, path.c_str());
	}
}

int main(int argc, char **argv)
{
	args a(argc, argv);
	g_dir = a.str("dir", "");
	if (g_dir.empty()) { char t[] = "/tmp/verif-fstore-XXXXXX"; g_dir = mkdtemp(t); }
	else mkdir(g_dir.c_str(), 0700);
	rng r(a.num("seed", 1));
	long long cases = a.num("cases", 50);
	bool thorough = a.has("thorough");
	if (a.has("huge")) huge_size_case();
	for (long long i = 0; i < cases && O().viol_count < 10; i++) { run_case(r, i, thorough); if (i % 3 == 0) run_gc(r); }
	O().count("crash_states", g_states);
	for (auto const &p : g_paths_opened) {
		std::string name = p.substr(g_dir.size() + 1);
		bool ok = name.size() == 32; for (char ch : name) if (!isxdigit((unsigned char)ch)) ok = false;
		if (!ok) { O().viol("fstore:storage-touched-path-that-is-not-a-session-id", p); break; }
	}
	O().count("paths_opened", (long long)g_paths_opened.size());
	rmdir(g_dir.c_str());
	finish(a);
	return O().viol_count ? 1 : 0;
}
