// C10 monitor: network cache (tcp_cache_service on loopback) with clients that may keep a local L1 cache.
// One driver thread issues a total order of operations, so the oracle is the sequential model applied to the
// servers; the dump hook on each server's backing cache checks placement.
#include "common/vh.h"
#include "common/clock_shim.h"
#include "cache_storage.h"
#include "base_cache.h"
#include "cache_over_ip.h"
#include "tcp_cache_server.h"
#include <cppcms/session_storage.h>
#include <booster/intrusive_ptr.h>
#include <booster/shared_ptr.h>
#include <sys/socket.h>
#include <netinet/in.h>
#include <arpa/inet.h>
#include <unistd.h>
#include <memory>

using namespace vh;
using cppcms::impl::base_cache;
using cppcms::impl::verif_cache_dump_result;

static int free_port(rng &)
{
	static rng r((uint64_t)getpid() * 7919u + (uint64_t)time(0));   // port search must not perturb the case generator
	for (int i = 0; i < 200; i++) {
		int p = 10000 + (int)r.below(20000);
		int s = socket(AF_INET, SOCK_STREAM, 0);
		sockaddr_in a; memset(&a, 0, sizeof a); a.sin_family = AF_INET; a.sin_port = htons(p); a.sin_addr.s_addr = htonl(INADDR_LOOPBACK);
		int ok = bind(s, (sockaddr *)&a, sizeof a);
		close(s);
		if (ok == 0) return p;
	}
	return 0;
}

struct mentry { std::string value; std::set<std::string> trig; long deadline; bool tainted; };

struct world {
	std::vector<booster::intrusive_ptr<base_cache> > backing;
	std::vector<std::unique_ptr<cppcms::impl::tcp_cache_service> > servers;
	std::vector<booster::intrusive_ptr<base_cache> > clients;
	std::vector<bool> has_l1;
	std::map<std::string, mentry> model;
	std::map<std::string, int> placement;
	std::vector<std::string> trace;
	bool failed;
};

static void viol(world &w, std::string const &key, std::string const &detail)
{
	w.failed = true;
	std::string t = "[";
	size_t from = w.trace.size() > 30 ? w.trace.size() - 30 : 0;
	for (size_t i = from; i < w.trace.size(); i++) { if (i > from) t += ","; t += jstr(w.trace[i]); }
	t += "]";
	O().viol(key, detail + " servers=" + std::to_string(w.servers.size()) + " clients=" + std::to_string(w.clients.size()), "{\"trace\":" + t + "}");
}
static bool odd_trigger(std::string const &t) { return t.empty() || t.find('\0') != std::string::npos; }

static bool g_odd = false;
static void run_world(rng &r, long long idx, long long nops)
{
	world w; w.failed = false;
	int ns = r.range(1, 2), nc = r.range(2, 3);
	std::vector<std::string> ips; std::vector<int> ports;
	for (int i = 0; i < ns; i++) {
		int port = free_port(r);
		booster::intrusive_ptr<base_cache> b = cppcms::impl::thread_cache_factory(0);
		w.backing.push_back(b);
		booster::shared_ptr<cppcms::sessions::session_storage_factory> nosess;
		w.servers.push_back(std::unique_ptr<cppcms::impl::tcp_cache_service>(new cppcms::impl::tcp_cache_service(b, nosess, r.range(1, 2), "127.0.0.1", port)));
		ips.push_back("127.0.0.1"); ports.push_back(port);
	}
	for (int i = 0; i < nc; i++) {
		bool l1 = r.chance(2, 3);
		booster::intrusive_ptr<base_cache> l;
		if (l1) l = cppcms::impl::thread_cache_factory(r.chance(1, 3) ? r.range(1, 4) : 0);
		w.clients.push_back(cppcms::impl::tcp_cache_factory(ips, ports, l));
		w.has_l1.push_back(l1);
	}
	vclock::now() = (idx % 5 == 4) ? 2200000000L : ((idx % 11 == 10) ? 2147483647L - 20 : 1600000000L);    // some worlds live after January 2038
	if (vclock::now() > 2147483647L) O().count("worlds_after_2038");
	std::vector<std::string> keys, trigs;
	int nk = r.range(2, 12);
	for (int i = 0; i < nk; i++) { std::string k = "key" + std::to_string(i); if (i % 5 == 3) k = (g_odd ? std::string("b\0in", 4) : std::string("b\x01in\xff")) + std::to_string(i); if (i % 7 == 6) { k = r.bytes(r.range(1, 40)); if (!g_odd) for (auto &ch : k) if (!ch) ch = 1; } keys.push_back(k); }
	for (int i = 0; i < 5; i++) trigs.push_back("trig" + std::to_string(i));
	uint64_t val = 0;
	O().count("worlds");
	O().seen("worlds", mix(mix(ns, nc), mix(nk, w.has_l1[0] * 2 + w.has_l1[1])));
	for (long long i = 0; i < nops && !w.failed; i++) {
		int ci = r.below((uint32_t)nc);
		base_cache &c = *w.clients[ci];
		long now = vclock::now();
		int k = r.below(100);
		std::string who = "c" + std::to_string(ci) + (w.has_l1[ci] ? "+L1" : "") + ": ";
		if (k < 38) {
			std::string key = r.pick(keys);
			size_t len; switch (r.below(8)) { case 0: len = 0; break; case 1: len = r.range(65536, 200000); break; case 2: len = r.below(5000); break; default: len = r.below(40); }
			std::string v = "v" + std::to_string(++val) + ":" + (r.chance(1, 3) ? r.bytes(len) : std::string(len, (char)('a' + val % 26)));
			if (r.chance(1, 8)) { v.clear(); O().count("stores_of_empty_value"); }      // the truly empty value (the sequential model does not need unique values)
			else if (r.chance(1, 20)) v = std::string(1, '\0');
			std::set<std::string> tr;
			int nt = r.chance(1, 25) ? 1000 : r.below(4);
			for (int t = 0; t < nt; t++) tr.insert(nt > 10 ? "bulk" + std::to_string(t) : r.pick(trigs));
			if (r.chance(1, 10)) tr.insert(r.pick(keys));
			bool odd = false;
			if (g_odd && r.chance(1, 10)) { tr.insert(r.chance(1, 2) ? std::string("nu\0l", 4) : std::string()); odd = true; }
			for (auto const &t : tr) if (odd_trigger(t)) odd = true;
			if (odd_trigger(key)) odd = true;     // the key is always its own trigger
			long dl = now + (r.chance(1, 10) ? -r.range(1, 5) : r.range(0, 30));
			w.trace.push_back(who + "store(" + hex(key.substr(0, 12)) + ", v" + std::to_string(val) + ", len " + std::to_string(v.size()) + ", " + std::to_string(tr.size()) + " triggers" + (odd ? " incl. NUL/empty name" : "") + ", dl now" + (dl >= now ? "+" : "") + std::to_string(dl - now) + ")");
			c.store(key, v, tr, (time_t)dl);
			mentry e; e.value = v; e.trig = tr; e.trig.insert(key); e.deadline = dl; e.tainted = odd;
			w.model[key] = e;
			O().count("stores");
		} else if (k < 80) {
			std::string key = r.chance(1, 15) ? "absent" : r.pick(keys);
			std::string v = "UNSET"; std::set<std::string> tr; time_t dl = -3;
			bool hit = c.fetch(key, &v, &tr, &dl);
			auto p = w.model.find(key);
			bool want = p != w.model.end() && p->second.deadline >= now;
			bool tainted = p != w.model.end() && p->second.tainted;
			w.trace.push_back(who + "fetch(" + hex(key.substr(0, 12)) + ") -> " + (hit ? "hit [" + v.substr(0, 8) + "] len " + std::to_string(v.size()) : "miss"));
			O().count("fetches");
			std::string sfx = (tainted || g_odd) ? ":key-or-trigger-name-with-NUL-or-empty" : "";
			if (hit && !want) viol(w, "netcache:stale-or-invalidated-value-served" + sfx, hex(key.substr(0, 12)));
			else if (!hit && want) viol(w, "netcache:current-value-not-found" + sfx, hex(key.substr(0, 12)));
			else if (hit) {
				O().count("hits"); if (w.has_l1[ci]) O().count("hits_through_l1_client");
				if (v != p->second.value) viol(w, "netcache:older-or-foreign-value-served" + sfx, "got " + v.substr(0, 10) + " want " + p->second.value.substr(0, 10));
				else if (tr != p->second.trig) viol(w, "netcache:trigger-set-changed-on-the-wire" + sfx, std::to_string(tr.size()) + " vs " + std::to_string(p->second.trig.size()));
				else if ((long)dl != p->second.deadline) viol(w, "netcache:deadline-changed-on-the-wire" + sfx, "");
			} else O().count("misses");
		} else if (k < 90) {
			std::string t = r.chance(1, 5) ? r.pick(keys) : r.pick(trigs);
			if (r.chance(1, 30)) t = "bulk" + std::to_string(r.below(1000));
			w.trace.push_back(who + "rise(" + hex(t.substr(0, 12)) + ")");
			c.rise(t);
			std::vector<std::string> kill;
			for (auto const &e : w.model) if (e.second.trig.count(t)) kill.push_back(e.first);
			for (auto const &x : kill) w.model.erase(x);
			O().count("rises"); O().count("rise_killed", (long long)kill.size());
		} else if (k < 92) {
			w.trace.push_back(who + "clear()");
			c.clear(); w.model.clear(); O().count("clears");
		} else if (k < 95) {
			unsigned sk = 0, st = 0; c.stats(sk, st);
			bool tainted = false; for (auto const &e : w.model) if (e.second.tainted) tainted = true;
			w.trace.push_back(who + "stats() -> " + std::to_string(sk));
			if (!tainted && !g_odd && sk != w.model.size()) viol(w, "netcache:stats-differ-from-history", std::to_string(sk) + " vs " + std::to_string(w.model.size()));
		} else { int dt = r.range(1, 12); vclock::now() += dt; w.trace.push_back("clock +" + std::to_string(dt)); }
		// placement: every key of the model lives on exactly one server, always the same one
		if ((i & 7) == 0 && !w.failed) {
			std::map<std::string, int> where; std::map<std::string, int> count;
			for (size_t s = 0; s < w.backing.size(); s++) {
				verif_cache_dump_result d;
				if (!cppcms::impl::verif_cache_dump(w.backing[s].get(), d)) { viol(w, "harness:dump-hook-unavailable", ""); break; }
				if (!d.inconsistency.empty()) viol(w, "netcache:server-cache-index-inconsistent", d.inconsistency);
				for (auto const &e : d.lru_order) { where[e.key] = (int)s; count[e.key]++; }
			}
			O().count("placement_checks");
			for (auto const &e : w.model) {
				if (e.second.tainted) continue;
				if (count[e.first] != 1) { viol(w, "netcache:key-not-on-exactly-one-server", hex(e.first.substr(0, 12)) + " on " + std::to_string(count[e.first])); break; }
				auto p = w.placement.find(e.first);
				if (p == w.placement.end()) w.placement[e.first] = where[e.first];
				else if (p->second != where[e.first]) { viol(w, "netcache:key-moved-between-servers", hex(e.first.substr(0, 12))); break; }
			}
		}
	}
	if (idx < 2 && w.trace.size() > 3) O().sample("{\"servers\":" + std::to_string(ns) + ",\"clients\":" + std::to_string(nc) + ",\"first_ops\":[" + jstr(w.trace[0]) + "," + jstr(w.trace[1]) + "," + jstr(w.trace[2]) + "]}");
	w.clients.clear();
	for (auto &s : w.servers) s->stop();
	w.servers.clear();
}

int main(int argc, char **argv)
{
	args a(argc, argv);
	rng r(a.num("seed", 1));
	long long worlds = a.num("worlds", 10), nops = a.num("ops", 300);
	g_odd = a.has("odd");
	for (long long i = 0; i < worlds && O().viol_count < 6; i++) run_world(r, i, nops);
	finish(a);
	return O().viol_count ? 1 : 0;
}
