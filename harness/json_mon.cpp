// C11 monitor: cppcms::json parser/serializer.
#include "common/vh.h"
#include "common/utf_ref.h"
#include <cppcms/json.h>
#include <booster/locale.h>
#include <sstream>
#include <locale>
#include <cmath>
#include <limits>
#include <memory>

using namespace vh;
namespace json = cppcms::json;

// ------------------------------------------------------------------ tree invariants on the real value
static bool g_bad_utf = false, g_undefined = false;
static size_t tree_depth(json::value const &v)
{
	switch (v.type()) {
	case json::is_string: if (!vref::utf8_valid(v.str())) g_bad_utf = true; return 0;
	case json::is_array: { size_t d = 0; for (auto const &e : v.array()) d = std::max(d, tree_depth(e)); return d + 1; }
	case json::is_object: { size_t d = 0; for (auto const &e : v.object()) { if (!vref::utf8_valid(e.first.str())) g_bad_utf = true; d = std::max(d, tree_depth(e.second)); } return d + 1; }
	case json::is_undefined: g_undefined = true; return 0;
	default: return 0;
	}
}
static bool num_close(double a, double b)
{
	if (a == b) return true;
	double m = std::max(std::fabs(a), std::fabs(b));
	return std::fabs(a - b) <= m * 1e-15;
}
// structural equality with numbers compared to printed precision
static bool approx_eq(json::value const &a, json::value const &b)
{
	if (a.type() != b.type()) return false;
	switch (a.type()) {
	case json::is_number: return num_close(a.number(), b.number());
	case json::is_array: { if (a.array().size() != b.array().size()) return false; for (size_t i = 0; i < a.array().size(); i++) if (!approx_eq(a.array()[i], b.array()[i])) return false; return true; }
	case json::is_object: { if (a.object().size() != b.object().size()) return false; auto i = a.object().begin(); auto j = b.object().begin(); for (; i != a.object().end(); ++i, ++j) if (i->first.str() != j->first.str() || !approx_eq(i->second, j->second)) return false; return true; }
	default: return a == b;
	}
}

// true when some number in the tree, printed with the writer's 16 significant digits, rounds to a decimal above DBL_MAX
static bool rounds_above_dbl_max(json::value const &v)
{
	switch (v.type()) {
	case json::is_number: { char b[64]; snprintf(b, sizeof b, "%.16g", v.number()); double x = strtod(b, 0); return std::isfinite(v.number()) && !std::isfinite(x); }
	case json::is_array: for (auto const &e : v.array()) if (rounds_above_dbl_max(e)) return true; return false;
	case json::is_object: for (auto const &e : v.object()) if (rounds_above_dbl_max(e.second)) return true; return false;
	default: return false;
	}
}
static std::string own_output_key(json::value const &v) { return rounds_above_dbl_max(v) ? "json:own-output-rejected:number-rounds-above-DBL_MAX-at-16-digits" : "json:own-output-rejected"; }

static json::value make_sentinel()
{
	json::value s;
	s["sentinel"] = "untouched";
	s["n"] = 42;
	return s;
}

// ------------------------------------------------------------------ oracle (a): any bytes
static void check_any(std::string const &text, char const *origin)
{
	std::string rp = "{\"text\":\"" + hex(text) + "\"}";
	O().count("any_inputs");
	for (int how = 0; how < 2; how++) {
		json::value target = make_sentinel();
		bool ok;
		if (how == 0) { char const *b = text.data(); ok = target.load(b, text.data() + text.size(), true); }
		else { std::istringstream ss(text); ok = target.load(ss, true); }
		if (!ok) {
			if (target != make_sentinel()) O().viol("json:failed-parse-modified-target", std::string(origin) + " " + hex(text.substr(0, 200)), rp);
			if (how == 0) O().count("any_rejected");
			continue;
		}
		if (how == 0) O().count("any_accepted");
		g_bad_utf = g_undefined = false;
		size_t d = tree_depth(target);
		if (g_bad_utf) O().viol("json:accepted-invalid-utf8-string", hex(text.substr(0, 200)), rp);
		if (g_undefined) O().viol("json:accepted-tree-with-undefined", hex(text.substr(0, 200)), rp);
		if (d > 512) O().viol("json:accepted-nesting-beyond-bound", "depth=" + std::to_string(d), rp);
		if (how == 1) continue;
		// save -> load -> save: equal tree, byte-identical from the second round on
		for (int fmt = 0; fmt < 2; fmt++) {
			std::string t1 = target.save(fmt ? json::readable : json::compact);
			json::value v2; char const *b = t1.data();
			if (!v2.load(b, t1.data() + t1.size(), true)) { O().viol(own_output_key(target), "out=" + hex(t1.substr(0, 300)), rp); continue; }
			if (!approx_eq(v2, target)) O().viol("json:reparse-differs", "out=" + hex(t1.substr(0, 300)), rp);
			std::string t2 = v2.save(fmt ? json::readable : json::compact);
			json::value v3; b = t2.data();
			if (!v3.load(b, t2.data() + t2.size(), true) || !(v3 == v2)) O().viol("json:second-round-not-exact", "out=" + hex(t2.substr(0, 300)), rp);
			else if (v3.save(fmt ? json::readable : json::compact) != t2) O().viol("json:text-not-stable-from-second-round", hex(t2.substr(0, 300)), rp);
		}
	}
}

// ------------------------------------------------------------------ abstract documents (oracle b)
struct node {
	int type; // 0 null 1 true 2 false 3 number 4 string 5 array 6 object
	double num; std::string numtext; std::string str;
	std::vector<node> arr; std::vector<std::pair<std::string, node> > obj;
	node() : type(0), num(0) {}
};
static std::string rand_ustring(rng &r, size_t maxn)
{
	std::string s; size_t n = r.below((uint32_t)maxn + 1);
	for (size_t i = 0; i < n; i++) {
		uint32_t cp;
		switch (r.below(8)) {
		case 0: cp = r.range(0, 0x1F); break;
		case 1: { static const uint32_t sp[] = { '"', '\\', '/', 0x7F, 0x80, 0x2028, 0xFFFD, 0xFFFF, 0x10000, 0x10FFFF, 0xD7FF, 0xE000, 0 }; cp = sp[r.below(13)]; break; }
		case 2: cp = r.range(0x80, 0x7FF); break;
		case 3: cp = r.range(0x800, 0xFFFF); if (cp >= 0xD800 && cp <= 0xDFFF) cp = 0x20AC; break;
		case 4: cp = r.range(0x10000, 0x10FFFF); break;
		default: cp = r.range(0x20, 0x7E);
		}
		s += vref::utf8_enc(cp);
	}
	return s;
}
static std::string ws(rng &r) { std::string s; int n = r.chance(2, 3) ? 0 : r.below(4); for (int i = 0; i < n; i++) s += " \t\r\n"[r.below(4)]; return s; }
static std::string emit_string(rng &r, std::string const &s)
{
	std::string o = "\"";
	size_t i = 0;
	while (i < s.size()) {
		uint32_t cp = 0; int l = vref::utf8_len((unsigned char const *)s.data() + i, s.size() - i, &cp);
		char buf[16];
		bool must = cp < 0x20 || cp == '"' || cp == '\\';
		int style = must ? 1 + r.below(2) : (r.chance(1, 6) ? 2 : 0);
		if (style == 1) {
			char const *sh = 0;
			switch (cp) { case '"': sh = "\\\""; break; case '\\': sh = "\\\\"; break; case '\b': sh = "\\b"; break; case '\f': sh = "\\f"; break; case '\n': sh = "\\n"; break; case '\r': sh = "\\r"; break; case '\t': sh = "\\t"; break; }
			if (sh) { o += sh; i += l; continue; }
			style = 2;
		}
		if (style == 0) { if (cp == '/' && r.chance(1, 2)) o += "\\/"; else o.append(s, i, l); }
		else {
			char const *fmt = r.chance(1, 2) ? "\\u%04x" : "\\u%04X";
			if (cp >= 0x10000) { uint32_t v = cp - 0x10000; snprintf(buf, sizeof buf, fmt, 0xD800 + (v >> 10)); o += buf; snprintf(buf, sizeof buf, fmt, 0xDC00 + (v & 0x3FF)); o += buf; }
			else { snprintf(buf, sizeof buf, fmt, cp); o += buf; }
		}
		i += l;
	}
	return o + "\"";
}
static void gen_number(rng &r, node &n)
{
	char buf[64];
	switch (r.below(8)) {
	case 0: snprintf(buf, sizeof buf, "%d", r.range(-1000, 1000)); break;
	case 1: snprintf(buf, sizeof buf, "%lld", (long long)r.next()); break;
	case 2: { double d; uint64_t x = r.next(); memcpy(&d, &x, 8); if (!std::isfinite(d)) d = 0.5; snprintf(buf, sizeof buf, r.chance(1, 2) ? "%.17g" : "%.17e", d); break; }
	case 3: snprintf(buf, sizeof buf, "%d.%de%s%d", r.range(0, 99), r.range(0, 999999), r.chance(1, 3) ? "+" : (r.chance(1, 2) ? "-" : ""), r.range(0, 300)); break;
	case 4: snprintf(buf, sizeof buf, "-0%s", r.chance(1, 2) ? ".0" : ""); break;
	case 5: snprintf(buf, sizeof buf, "%dE%d", r.range(1, 9), r.range(-320, 300)); break;
	case 6: { static char const *edge[] = { "0", "1e308", "1.7976931348623157e308", "4.9e-324", "2.2250738585072014e-308", "0.1", "123456789012345678901234567890", "0.000000000000000000000000000001", "9007199254740993", "1e-400" }; snprintf(buf, sizeof buf, "%s", edge[r.below(10)]); break; }
	default: snprintf(buf, sizeof buf, "%.6f", (double)r.range(-100000, 100000) / 7);
	}
	// strip a '+'-less / leading-zero hazard: printf never emits leading zeros for the integer part; exponent "e+05" is RFC-legal
	n.type = 3; n.numtext = buf; n.num = strtod(buf, 0);
	if (!std::isfinite(n.num)) { n.numtext = "1"; n.num = 1; }
}
static void gen_node(rng &r, node &n, int depth, int max_depth, int &budget)
{
	budget--;
	int t = (depth >= max_depth || budget <= 0) ? r.below(5) : r.below(8);
	switch (t) {
	case 0: n.type = 0; break;
	case 1: n.type = 1; break;
	case 2: n.type = 2; break;
	case 3: gen_number(r, n); break;
	case 4: n.type = 4; n.str = rand_ustring(r, r.chance(1, 10) ? 200 : 12); break;
	case 5: case 6: { n.type = 5; int k = r.below(5); for (int i = 0; i < k && budget > 0; i++) { n.arr.push_back(node()); gen_node(r, n.arr.back(), depth + 1, max_depth, budget); } break; }
	default: { n.type = 6; int k = r.below(5); std::set<std::string> used; for (int i = 0; i < k && budget > 0; i++) { std::string key = rand_ustring(r, 6); if (!used.insert(key).second) continue; n.obj.push_back(std::make_pair(key, node())); gen_node(r, n.obj.back().second, depth + 1, max_depth, budget); } }
	}
}
static void emit(rng &r, node const &n, std::string &o)
{
	o += ws(r);
	switch (n.type) {
	case 0: o += "null"; break;
	case 1: o += "true"; break;
	case 2: o += "false"; break;
	case 3: o += n.numtext; break;
	case 4: o += emit_string(r, n.str); break;
	case 5: o += "["; for (size_t i = 0; i < n.arr.size(); i++) { if (i) o += ","; emit(r, n.arr[i], o); } o += ws(r); o += "]"; break;
	default: o += "{"; for (size_t i = 0; i < n.obj.size(); i++) { if (i) o += ","; o += ws(r); o += emit_string(r, n.obj[i].first); o += ws(r); o += ":"; emit(r, n.obj[i].second, o); } o += ws(r); o += "}";
	}
	o += ws(r);
}
static bool same(node const &n, json::value const &v, std::string &why)
{
	switch (n.type) {
	case 0: if (v.type() != json::is_null) { why = "null expected"; return false; } return true;
	case 1: case 2: if (v.type() != json::is_boolean || v.boolean() != (n.type == 1)) { why = "boolean differs"; return false; } return true;
	case 3: if (v.type() != json::is_number || memcmp(&v.number(), &n.num, 8) != 0) { why = "number differs for " + n.numtext; return false; } return true;
	case 4: if (v.type() != json::is_string || v.str() != n.str) { why = "string differs"; return false; } return true;
	case 5: if (v.type() != json::is_array || v.array().size() != n.arr.size()) { why = "array size"; return false; } for (size_t i = 0; i < n.arr.size(); i++) if (!same(n.arr[i], v.array()[i], why)) return false; return true;
	default:
		if (v.type() != json::is_object || v.object().size() != n.obj.size()) { why = "object size"; return false; }
		for (auto const &kv : n.obj) { auto p = v.object().find(kv.first); if (p == v.object().end()) { why = "key missing"; return false; } if (!same(kv.second, p->second, why)) return false; }
		return true;
	}
}
static void check_rfc_doc(rng &r, long long idx)
{
	node root; int budget = 60;
	// nesting depth around the documented bound for a share of the cases
	int chain = 0;
	if (r.chance(1, 12)) chain = r.chance(1, 2) ? r.range(505, 520) : r.range(1, 600);
	gen_node(r, root, 0, r.range(0, 6), budget);
	size_t depth_extra = 0;
	std::string text;
	emit(r, root, text);
	// wrap into `chain` levels of arrays/objects
	for (int i = 0; i < chain; i++) { if (r.chance(1, 2)) text = "[" + text + "]"; else text = "{\"k\":" + text + "}"; depth_extra++; }
	// expected depth
	struct D { static size_t d(node const &n) { size_t m = 0; if (n.type == 5) { for (auto const &e : n.arr) m = std::max(m, d(e)); return m + 1; } if (n.type == 6) { for (auto const &e : n.obj) m = std::max(m, d(e.second)); return m + 1; } return 0; } };
	size_t depth = D::d(root) + depth_extra;
	std::string rp = "{\"text\":\"" + hex(text) + "\"}";
	json::value v = make_sentinel();
	char const *b = text.data();
	bool ok = v.load(b, text.data() + text.size(), true);
	O().count("rfc_docs");
	O().seen("docs", fnv(text));
	O().setmax("max_depth_seen", (long long)depth);
	if (depth <= 512) {
		O().count("rfc_docs_within_bound");
		if (!ok) { O().viol("json:rfc-document-rejected", "depth=" + std::to_string(depth) + " text=" + text.substr(0, 300), rp); return; }
		// unwrap
		json::value const *cur = &v;
		for (size_t i = 0; i < depth_extra; i++) {
			if (cur->type() == json::is_array && cur->array().size() == 1) cur = &cur->array()[0];
			else if (cur->type() == json::is_object && cur->object().size() == 1) cur = &cur->object().begin()->second;
			else { O().viol("json:rfc-structure-differs", "wrapper level " + std::to_string(i), rp); return; }
		}
		std::string why;
		if (!same(root, *cur, why)) O().viol("json:rfc-value-differs", why + " text=" + text.substr(0, 300), rp);
		if (depth >= 500) O().count("rfc_docs_depth_500_512");
	} else {
		O().count("rfc_docs_beyond_bound");
		if (ok) O().viol("json:accepted-nesting-beyond-bound", "depth=" + std::to_string(depth), rp);
		else if (v != make_sentinel()) O().viol("json:failed-parse-modified-target", "deep", rp);
	}
	if (idx < 2) O().sample("{\"kind\":\"rfc-doc\",\"text\":" + jstr(text.substr(0, 200)) + ",\"depth\":" + std::to_string(depth) + "}");
	// single-byte mutations of the document go through oracle (a); duplicate keys must be refused
	if (text.size() < 3000) {
		for (int k = 0; k < 6; k++) {
			std::string m = text;
			size_t p = r.below((uint32_t)m.size());
			switch (r.below(4)) { case 0: m[p] = (char)r.byte(); break; case 1: m.erase(p, 1); break; case 2: m.insert(p, 1, "\"\\{}[],:0-.eu\x80\xff\x00"[r.below(16)]); break; default: m.resize(p); }
			check_any(m, "mutated");
		}
		check_any(text, "rfc");
	}
	if (root.type == 6 && !root.obj.empty() && chain == 0) {
		node dup = root; dup.obj.push_back(dup.obj[r.below((uint32_t)dup.obj.size())]);
		std::string t2; emit(r, dup, t2);
		json::value v2 = make_sentinel(); char const *b2 = t2.data();
		O().count("duplicate_key_docs");
		if (v2.load(b2, t2.data() + t2.size(), true)) O().viol("json:duplicate-key-accepted", t2.substr(0, 300), "{\"text\":\"" + hex(t2) + "\"}");
	}
}

// ------------------------------------------------------------------ strict RFC 8259 recogniser for the writer's output
struct rfc {
	std::string const &s; size_t p; int depth;
	explicit rfc(std::string const &t) : s(t), p(0), depth(0) {}
	void sp() { while (p < s.size() && (s[p] == ' ' || s[p] == '\t' || s[p] == '\n' || s[p] == '\r')) p++; }
	bool lit(char const *l) { size_t n = strlen(l); if (s.compare(p, n, l) != 0) return false; p += n; return true; }
	bool str() {
		if (p >= s.size() || s[p] != '"') return false; p++;
		while (p < s.size()) {
			unsigned char c = s[p];
			if (c == '"') { p++; return true; }
			if (c < 0x20) return false;
			if (c == '\\') {
				if (p + 1 >= s.size()) return false;
				char e = s[p + 1];
				if (e == 'u') { if (p + 5 >= s.size()) return false; for (int i = 2; i < 6; i++) if (!isxdigit((unsigned char)s[p + i])) return false; p += 6; }
				else if (strchr("\"\\/bfnrt", e)) p += 2; else return false;
				continue;
			}
			int l = vref::utf8_len((unsigned char const *)s.data() + p, s.size() - p);
			if (!l) return false;
			p += l;
		}
		return false;
	}
	bool num() {
		size_t q = p;
		if (q < s.size() && s[q] == '-') q++;
		if (q >= s.size()) return false;
		if (s[q] == '0') q++; else if (s[q] >= '1' && s[q] <= '9') { while (q < s.size() && isdigit((unsigned char)s[q])) q++; } else return false;
		if (q < s.size() && s[q] == '.') { q++; if (q >= s.size() || !isdigit((unsigned char)s[q])) return false; while (q < s.size() && isdigit((unsigned char)s[q])) q++; }
		if (q < s.size() && (s[q] == 'e' || s[q] == 'E')) { q++; if (q < s.size() && (s[q] == '+' || s[q] == '-')) q++; if (q >= s.size() || !isdigit((unsigned char)s[q])) return false; while (q < s.size() && isdigit((unsigned char)s[q])) q++; }
		p = q; return true;
	}
	bool val() {
		sp();
		if (p >= s.size()) return false;
		bool ok;
		switch (s[p]) {
		case 'n': ok = lit("null"); break;
		case 't': ok = lit("true"); break;
		case 'f': ok = lit("false"); break;
		case '"': ok = str(); break;
		case '[': { p++; sp(); if (p < s.size() && s[p] == ']') { p++; ok = true; break; } ok = true; for (;;) { if (!val()) { ok = false; break; } sp(); if (p < s.size() && s[p] == ',') { p++; continue; } if (p < s.size() && s[p] == ']') { p++; break; } ok = false; break; } break; }
		case '{': { p++; sp(); if (p < s.size() && s[p] == '}') { p++; ok = true; break; } ok = true; for (;;) { sp(); if (!str()) { ok = false; break; } sp(); if (p >= s.size() || s[p] != ':') { ok = false; break; } p++; if (!val()) { ok = false; break; } sp(); if (p < s.size() && s[p] == ',') { p++; continue; } if (p < s.size() && s[p] == '}') { p++; break; } ok = false; break; } break; }
		default: ok = num();
		}
		sp();
		return ok;
	}
	bool doc() { return val() && p == s.size(); }
};

// ------------------------------------------------------------------ oracle (c): writer under hostile locales
struct comma_punct : std::numpunct<char> {
	char do_decimal_point() const override { return ','; }
	char do_thousands_sep() const override { return '.'; }
	std::string do_grouping() const override { return "\3"; }
	std::string do_truename() const override { return "wahr"; }
	std::string do_falsename() const override { return "falsch"; }
};
static void build_value(rng &r, json::value &v, int depth)
{
	switch (r.below(depth > 4 ? 5 : 8)) {
	case 0: v = json::null(); break;
	case 1: v = r.chance(1, 2); break;
	case 2: { double d; switch (r.below(5)) { case 0: d = r.range(-1000000, 1000000); break; case 1: d = (double)r.range(-1000000, 1000000) / 1000.0; break; case 2: d = 1234567.891; break; case 3: { uint64_t x = r.next(); memcpy(&d, &x, 8); if (!std::isfinite(d)) d = 12345678.5; break; } default: d = (double)(long long)r.next(); } v = d; break; }
	case 3: v = rand_ustring(r, 20); break;
	case 4: v = r.range(1000, 99999999); break;
	case 5: case 6: { v = json::array(); int n = r.below(5); for (int i = 0; i < n; i++) { json::value e; build_value(r, e, depth + 1); v.array().push_back(e); } break; }
	default: { v = json::object(); int n = r.below(5); for (int i = 0; i < n; i++) { json::value e; build_value(r, e, depth + 1); v.object()[rand_ustring(r, 5)] = e; } }
	}
}
// "all json::value trees built through the API": a value replaced by one of its own parts (v.object(v["result"].object()) and the
// like) - the setters take references, which then point into the content they replace
static void replace_by_own_part(rng &r, json::value &root)
{
	json::value *v = &root;
	for (int hop = r.below(3); hop > 0; hop--) {
		if (v->type() == json::is_array && !v->array().empty()) v = &v->array()[r.below((uint32_t)v->array().size())];
		else if (v->type() == json::is_object && !v->object().empty()) { json::object::iterator it = v->object().begin(); std::advance(it, r.below((uint32_t)v->object().size())); v = &it->second; }
	}
	json::value *part = 0;
	if (v->type() == json::is_array && !v->array().empty()) part = &v->array()[r.below((uint32_t)v->array().size())];
	else if (v->type() == json::is_object && !v->object().empty()) { json::object::iterator it = v->object().begin(); std::advance(it, r.below((uint32_t)v->object().size())); part = &it->second; }
	if (!part) return;
	json::value expect = *part;
	int how = r.below(3);
	switch (part->type()) {
	case json::is_object: if (how == 0) v->object(part->object()); else if (how == 1) v->set_value(part->object()); else *v = *part; break;
	case json::is_array: if (how == 0) v->array(part->array()); else if (how == 1) v->set_value(part->array()); else *v = *part; break;
	case json::is_string: if (how == 0) v->str(part->str()); else if (how == 1) v->set_value(part->str()); else *v = *part; break;
	case json::is_number: if (how == 0) v->number(part->number()); else *v = *part; break;
	default: *v = *part;
	}
	O().count("values_replaced_by_own_part");
	O().seen("own_part_shapes", mix(expect.type(), how));
	if (!(*v == expect)) O().viol("json:value-replaced-by-own-part-differs", "expected " + expect.save().substr(0, 200) + " got " + (v->is_undefined() ? std::string("undefined") : v->save().substr(0, 200)));
}
static std::vector<std::locale> &locales()
{
	static std::vector<std::locale> l;
	if (l.empty()) {
		l.push_back(std::locale::classic());
		l.push_back(std::locale(std::locale::classic(), new comma_punct()));
		try { booster::locale::generator g; l.push_back(g("de_DE.UTF-8")); l.push_back(g("fr_FR.UTF-8")); } catch (std::exception const &) {}
	}
	return l;
}
static FILE *g_dump = 0;
static bool g_odd = false;      // separate input class: values that JSON text cannot carry (non-finite numbers, strings that are not UTF-8)
static std::string odd_sfx() { return g_odd ? ":value-holds-non-finite-number-or-non-utf8-string" : ""; }
static void check_writer(rng &r, long long idx)
{
	json::value v;
	build_value(r, v, 0);
	if (r.chance(1, 3)) replace_by_own_part(r, v);
	if (g_odd) {
		json::value inner = v, odd;
		switch (r.below(5)) { case 0: odd = std::numeric_limits<double>::quiet_NaN(); break; case 1: odd = std::numeric_limits<double>::infinity(); break; case 2: odd = -std::numeric_limits<double>::infinity(); break; case 3: odd = std::string("\xff"); break; default: odd = std::string("ok\xc3"); }
		v = json::array(); v.array().push_back(inner); v.array().push_back(odd);
		O().count("writer_trees_with_unrepresentable_value");
	}
	O().count("writer_trees");
	std::string rp;
	for (size_t li = 0; li < locales().size(); li++) for (int fmt = 0; fmt < 2; fmt++) {
		std::ostringstream ss;
		ss.imbue(locales()[li]);
		if (li == 3) ss << booster::locale::as::number;
		v.save(ss, fmt ? json::readable : json::compact);
		std::string out = ss.str();
		rp = "{\"locale\":" + std::to_string(li) + ",\"readable\":" + std::to_string(fmt) + ",\"out\":\"" + hex(out.substr(0, 400)) + "\"}";
		O().count("writer_outputs");
		if (ss.getloc() != locales()[li]) O().viol("json:writer-left-stream-locale-changed", rp, rp);
		rfc chk(out);
		if (!chk.doc()) { O().viol("json:writer-output-not-rfc8259" + odd_sfx(), "locale#" + std::to_string(li) + " out=" + out.substr(0, 300), rp); continue; }
		json::value back; char const *b = out.data();
		if (!back.load(b, out.data() + out.size(), true)) { O().viol(own_output_key(v) + odd_sfx(), out.substr(0, 300), rp); continue; }
		if (!approx_eq(back, v)) O().viol("json:reparse-differs" + odd_sfx(), out.substr(0, 300), rp);
		std::string t2 = back.save(fmt ? json::readable : json::compact);
		json::value b2; b = t2.data();
		if (!b2.load(b, t2.data() + t2.size(), true) || !(b2 == back)) O().viol("json:second-round-not-exact", t2.substr(0, 300), rp);
		// reading under a hostile stream locale must not depend on it either
		std::istringstream is(out); is.imbue(locales()[li]);
		json::value b3;
		if (!b3.load(is, true) || !(b3 == back)) O().viol("json:parse-depends-on-stream-locale", out.substr(0, 300), rp);
		if (g_dump && li == 1) fprintf(g_dump, "{\"out\":\"%s\",\"resave\":\"%s\"}\n", hex(out).c_str(), hex(t2).c_str());
	}
	if (idx < 1) O().sample("{\"kind\":\"writer\",\"compact\":" + jstr(v.save().substr(0, 200)) + "}");
	// a value holding an undefined member must not be written silently
	if (r.chance(1, 20)) {
		json::value u; u["a"] = 1; u["b"] = json::value();
		bool threw = false;
		try { std::ostringstream ss; u.save(ss); } catch (json::bad_value_cast const &) { threw = true; }
		if (!threw) O().viol("json:undefined-written", "");
	}
}

// ------------------------------------------------------------------ oracle (d): typed extraction
template <typename T> static void extract_int(double d, char const *tn)
{
	json::value v; v.number(d);
	O().count("extractions");
	bool threw = false; T r = 0;
	try { r = v.get_value<T>(); } catch (json::bad_value_cast const &) { threw = true; }
	char buf[96]; snprintf(buf, sizeof buf, "{\"type\":\"%s\",\"number\":\"%.17g\"}", tn, d);
	bool representable = std::isfinite(d) && d == std::floor(d) && d >= -std::ldexp(1.0, std::numeric_limits<T>::digits) * (std::numeric_limits<T>::is_signed ? 1 : 0) && d < std::ldexp(1.0, std::numeric_limits<T>::digits) && (std::numeric_limits<T>::is_signed || d >= 0);
	if (!threw) {
		O().count("extractions_returned");
		if (!((double)r == d)) O().viol(std::string("json:extraction-inexact:") + tn, buf, buf);
		if (!representable) O().viol(std::string("json:extraction-of-unrepresentable-returned:") + tn, buf, buf);
	} else if (representable) O().viol(std::string("json:extraction-of-representable-threw:") + tn, buf, buf);
}
static void check_extract(rng &r)
{
	double d;
	switch (r.below(9)) {
	case 0: d = r.range(-300, 300); break;
	case 1: d = (double)r.range(-300, 300) + 0.5; break;
	case 2: { static const double e[] = { 127, 128, 255, 256, -128, -129, 32767, 32768, 65535, 65536, -32768, -32769, 2147483647.0, 2147483648.0, -2147483648.0, -2147483649.0, 4294967295.0, 4294967296.0,
			9223372036854775808.0, -9223372036854775808.0, 18446744073709551616.0, 9223372036854774784.0, 18446744073709549568.0, 9007199254740992.0, 9007199254740993.0, -0.0, 0.0, 1e300, -1e300,
			std::numeric_limits<double>::quiet_NaN(), std::numeric_limits<double>::infinity(), -std::numeric_limits<double>::infinity(), 1114111, 1114112, 3.4028234663852886e38, 3.5e38, -3.5e38, 1e-50 };
		d = e[r.below(sizeof e / sizeof e[0])]; break; }
	case 3: d = std::ldexp(1.0, r.range(0, 70)) + r.range(-2, 2); break;
	case 4: d = -std::ldexp(1.0, r.range(0, 70)) + r.range(-2, 2); break;
	case 5: { uint64_t x = r.next(); memcpy(&d, &x, 8); break; }
	case 6: d = (double)(long long)r.next(); break;
	case 7: d = (double)r.next(); break;
	default: d = (double)r.range(-70000, 70000);
	}
	extract_int<char>(d, "char"); extract_int<signed char>(d, "signed char"); extract_int<unsigned char>(d, "unsigned char");
	extract_int<short>(d, "short"); extract_int<unsigned short>(d, "unsigned short"); extract_int<int>(d, "int"); extract_int<unsigned>(d, "unsigned");
	extract_int<long>(d, "long"); extract_int<unsigned long>(d, "unsigned long"); extract_int<long long>(d, "long long"); extract_int<unsigned long long>(d, "unsigned long long");
	extract_int<wchar_t>(d, "wchar_t");
	json::value v; v.number(d);
	char buf[96]; snprintf(buf, sizeof buf, "{\"type\":\"double\",\"number\":\"%.17g\"}", d);
	double back = v.get_value<double>();
	if (memcmp(&back, &d, 8) != 0) O().viol("json:extraction-inexact:double", buf, buf);
	// float: the nearest float, or an exception when the number is outside float's range
	bool threw = false; float f = 0;
	try { f = v.get_value<float>(); } catch (json::bad_value_cast const &) { threw = true; }
	bool in_range = std::isnan(d) || std::fabs(d) <= (double)std::numeric_limits<float>::max();
	if (!threw) { if (!in_range && std::isfinite(d)) O().viol("json:extraction-of-unrepresentable-returned:float", buf, buf); else if (std::isfinite(d) && in_range && f != (float)d) O().viol("json:extraction-inexact:float", buf, buf); }
	else if (in_range && std::isfinite(d)) O().viol("json:extraction-of-representable-threw:float", buf, buf);
	O().count("extractions", 2);
	// wrong-type extraction throws
	json::value s = "text"; bool t2 = false;
	try { (void)s.get_value<int>(); } catch (json::bad_value_cast const &) { t2 = true; }
	if (!t2) O().viol("json:extraction-from-string-returned", "");
}

static std::string rand_garbage(rng &r)
{
	static char const *frag[] = { "{", "}", "[", "]", ",", ":", "\"", "\\", "\\u", "d800", "dc00", "\\ud83d", "\\ude00", "true", "false", "null", "nul", "-", "0", "1e", "1e999", ".5", "//c\n", "/", " ", "\n", "\"a\"", "\"\\", "\x80", "\xc3\xa9", "\xed\xa0\x80", "\xff", "\x01", "e5", "+1", "0x1", "1.", "\"k\":", "[[", "]]", "\t" };
	std::string s; int n = r.below(14);
	for (int i = 0; i < n; i++) { if (r.chance(1, 8)) s += (char)r.byte(); else s += frag[r.below(sizeof frag / sizeof frag[0])]; }
	return s;
}

#ifdef VERIF_FUZZ
extern "C" int LLVMFuzzerTestOneInput(uint8_t const *data, size_t size)
{
	check_any(std::string((char const *)data, size), "fuzz");
	if (O().viol_count) { fflush(stdout); abort(); }
	return 0;
}
#else
int main(int argc, char **argv)
{
	args a(argc, argv);
	rng r(a.num("seed", 1));
	long long cases = a.num("cases", 1000);
	std::string mode = a.str("mode", "all");
	if (a.has("dump")) g_dump = fopen(a.str("dump").c_str(), "w");
	g_odd = a.has("odd");
	if (mode == "one") { check_any(unhex(a.str("text")), "replay"); }
	else for (long long i = 0; i < cases; i++) {
		if (mode == "all" || mode == "rfc") check_rfc_doc(r, i);
		if (mode == "all" || mode == "writer") check_writer(r, i);
		if (mode == "all" || mode == "extract") for (int k = 0; k < 20; k++) check_extract(r);
		if (mode == "all" || mode == "garbage") for (int k = 0; k < 10; k++) { std::string g = rand_garbage(r); O().seen("docs", fnv(g)); check_any(g, "garbage"); }
		O().count("cases");
	}
	if (g_dump) fclose(g_dump);
	O().count("locales_available", (long long)locales().size());
	finish(a);
	return O().viol_count ? 1 : 0;
}
#endif
