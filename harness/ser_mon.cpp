// C19 monitor: cppcms::archive round trips over a generated type universe, and malformed archives
// judged by sanitizers plus a strict, independently written shadow reader.
#include "common/vh.h"
#include <cppcms/serialization.h>
#include <cppcms/json.h>
#include <booster/shared_ptr.h>
#include <booster/hold_ptr.h>
#include <booster/copy_ptr.h>
#include <memory>
#include <list>
#include <cmath>
#include <typeinfo>

using namespace vh;

// ------------------------------------------------------------------ user classes
struct point : public cppcms::serializable {
	int x; double y; std::string label;
	point() : x(0), y(0) {}
	void serialize(cppcms::archive &a) { a & x & y & label; }
};
struct person : public cppcms::serializable {
	std::string name; unsigned short age; std::vector<std::string> tags; std::map<std::string, double> scores;
	booster::shared_ptr<person> child; point where; std::vector<point> path; char flag;
	person() : age(0), flag(0) {}
	void serialize(cppcms::archive &a) { a & name & age & tags & scores & child & where & path & flag; }
};

// ------------------------------------------------------------------ equality (deep, bitwise for floats)
template <typename T> struct is_ptr { enum { v = 0 }; };
template <typename T> struct is_ptr<booster::shared_ptr<T> > { enum { v = 1 }; };
template <typename T> struct is_ptr<booster::hold_ptr<T> > { enum { v = 1 }; };
template <typename T> struct is_ptr<booster::copy_ptr<T> > { enum { v = 1 }; };
template <typename T> struct is_ptr<std::unique_ptr<T> > { enum { v = 1 }; };

template <typename T> bool eq(T const &a, T const &b);
template <typename T> struct EQ { static bool f(T const &a, T const &b) { return a == b; } };
template <> struct EQ<double> { static bool f(double a, double b) { return memcmp(&a, &b, sizeof a) == 0; } };
template <> struct EQ<float> { static bool f(float a, float b) { return memcmp(&a, &b, sizeof a) == 0; } };
template <> struct EQ<long double> { static bool f(long double a, long double b) { return (std::isnan(a) && std::isnan(b)) || a == b; } };
template <typename A, typename B> struct EQ<std::pair<A, B> > { static bool f(std::pair<A, B> const &a, std::pair<A, B> const &b) { return eq(a.first, b.first) && eq(a.second, b.second); } };
template <typename C> bool eq_seq(C const &a, C const &b) {
	if (a.size() != b.size()) return false;
	typename C::const_iterator i = a.begin(), j = b.begin();
	for (; i != a.end(); ++i, ++j) if (!eq(*i, *j)) return false;
	return true;
}
template <typename T> struct EQ<std::vector<T> > { static bool f(std::vector<T> const &a, std::vector<T> const &b) { return eq_seq(a, b); } };
template <typename T> struct EQ<std::list<T> > { static bool f(std::list<T> const &a, std::list<T> const &b) { return eq_seq(a, b); } };
template <typename T> struct EQ<std::set<T> > { static bool f(std::set<T> const &a, std::set<T> const &b) { return eq_seq(a, b); } };
template <typename T> struct EQ<std::multiset<T> > { static bool f(std::multiset<T> const &a, std::multiset<T> const &b) { return eq_seq(a, b); } };
template <typename K, typename V> struct EQ<std::map<K, V> > { static bool f(std::map<K, V> const &a, std::map<K, V> const &b) { return eq_seq(a, b); } };
template <typename K, typename V> struct EQ<std::multimap<K, V> > { static bool f(std::multimap<K, V> const &a, std::multimap<K, V> const &b) { return eq_seq(a, b); } };
template <typename P> bool eq_ptr(P const &a, P const &b) { if (!a.get() || !b.get()) return !a.get() && !b.get(); return eq(*a, *b); }
template <typename T> struct EQ<booster::shared_ptr<T> > { static bool f(booster::shared_ptr<T> const &a, booster::shared_ptr<T> const &b) { return eq_ptr(a, b); } };
template <typename T> struct EQ<booster::hold_ptr<T> > { static bool f(booster::hold_ptr<T> const &a, booster::hold_ptr<T> const &b) { return eq_ptr(a, b); } };
template <typename T> struct EQ<booster::copy_ptr<T> > { static bool f(booster::copy_ptr<T> const &a, booster::copy_ptr<T> const &b) { return eq_ptr(a, b); } };
template <typename T> struct EQ<std::unique_ptr<T> > { static bool f(std::unique_ptr<T> const &a, std::unique_ptr<T> const &b) { return eq_ptr(a, b); } };
template <> struct EQ<point> { static bool f(point const &a, point const &b) { return a.x == b.x && eq(a.y, b.y) && a.label == b.label; } };
template <> struct EQ<person> { static bool f(person const &a, person const &b) {
	return a.name == b.name && a.age == b.age && a.tags == b.tags && eq(a.scores, b.scores) && eq(a.child, b.child) && eq(a.where, b.where) && eq(a.path, b.path) && a.flag == b.flag; } };
template <typename T> bool eq(T const &a, T const &b) { return EQ<T>::f(a, b); }

// ------------------------------------------------------------------ generators
static int g_depth = 0;
template <typename T> struct GEN;
template <typename T> void gen(rng &r, T &v) { GEN<T>::f(r, v); }
static size_t gen_n(rng &r) { if (g_depth > 3) return r.below(2); switch (r.below(6)) { case 0: return 0; case 1: return 1; case 2: return r.below(4); default: return r.below(9); } }
#define GEN_INT(T) template <> struct GEN<T> { static void f(rng &r, T &v) { uint64_t x = r.next(); switch (r.below(5)) { case 0: x = 0; break; case 1: x = ~0ull; break; case 2: x &= 0xff; break; default:; } v = (T)x; } };
GEN_INT(char) GEN_INT(signed char) GEN_INT(unsigned char) GEN_INT(short) GEN_INT(unsigned short) GEN_INT(int) GEN_INT(unsigned) GEN_INT(long) GEN_INT(unsigned long) GEN_INT(long long) GEN_INT(unsigned long long) GEN_INT(wchar_t)
template <> struct GEN<double> { static void f(rng &r, double &v) { switch (r.below(6)) { case 0: v = 0; break; case 1: v = -1.5e300; break; case 2: v = 1e-310; break; case 3: v = INFINITY; break; default: { uint64_t x = r.next(); memcpy(&v, &x, 8); if (std::isnan(v)) v = 1.25; } } } };
template <> struct GEN<float> { static void f(rng &r, float &v) { double d; gen(r, d); v = (float)(r.chance(1, 2) ? d : (double)r.range(-1000, 1000) / 7); if (std::isnan(v)) v = 2.5f; } };
template <> struct GEN<long double> { static void f(rng &r, long double &v) { double d; gen(r, d); v = (long double)d * 3.0L; if (std::isnan(v)) v = 1; } };
template <> struct GEN<std::string> { static void f(rng &r, std::string &v) {
	size_t n; switch (r.below(7)) { case 0: n = 0; break; case 1: n = 1; break; case 2: n = 15 + r.below(3); break; case 3: n = r.below(300); break; default: n = r.below(12); }
	v.clear(); int k = r.below(3);
	for (size_t i = 0; i < n; i++) v += k == 0 ? (char)r.byte() : k == 1 ? (char)r.range('a', 'z') : (r.chance(1, 4) ? '\0' : (char)r.range(32, 126)); } };
template <typename A, typename B> struct GEN<std::pair<A, B> > { static void f(rng &r, std::pair<A, B> &v) { gen(r, const_cast<typename std::remove_const<A>::type &>(v.first)); gen(r, v.second); } };
template <typename T> struct GEN<std::vector<T> > { static void f(rng &r, std::vector<T> &v) { g_depth++; size_t n = gen_n(r); if (sizeof(T) <= 16 && g_depth == 1 && r.chance(1, 8)) n = r.below(3000); v.clear(); v.resize(n); for (size_t i = 0; i < n; i++) gen(r, v[i]); g_depth--; } };
template <typename T> struct GEN<std::list<T> > { static void f(rng &r, std::list<T> &v) { g_depth++; size_t n = gen_n(r); v.clear(); for (size_t i = 0; i < n; i++) { T t; gen(r, t); v.push_back(t); } g_depth--; } };
template <typename T> struct GEN<std::set<T> > { static void f(rng &r, std::set<T> &v) { g_depth++; size_t n = gen_n(r); v.clear(); for (size_t i = 0; i < n; i++) { T t; gen(r, t); v.insert(t); } g_depth--; } };
template <typename T> struct GEN<std::multiset<T> > { static void f(rng &r, std::multiset<T> &v) { g_depth++; size_t n = gen_n(r); v.clear(); for (size_t i = 0; i < n; i++) { T t; gen(r, t); v.insert(t); if (r.chance(1, 3)) v.insert(t); } g_depth--; } };
template <typename K, typename V> struct GEN<std::map<K, V> > { static void f(rng &r, std::map<K, V> &v) { g_depth++; size_t n = gen_n(r); v.clear(); for (size_t i = 0; i < n; i++) { K k; gen(r, k); gen(r, v[k]); } g_depth--; } };
template <typename K, typename V> struct GEN<std::multimap<K, V> > { static void f(rng &r, std::multimap<K, V> &v) { g_depth++; size_t n = gen_n(r); v.clear(); for (size_t i = 0; i < n; i++) { std::pair<K, V> p; gen(r, p.first); gen(r, p.second); v.insert(p); if (r.chance(1, 3)) { gen(r, p.second); v.insert(p); } } g_depth--; } };
template <typename P, typename T> void gen_ptr(rng &r, P &p) { if (r.chance(1, 3) || g_depth > 4) { p.reset(); return; } g_depth++; p.reset(new T()); gen(r, *p); g_depth--; }
template <typename T> struct GEN<booster::shared_ptr<T> > { static void f(rng &r, booster::shared_ptr<T> &v) { gen_ptr<booster::shared_ptr<T>, T>(r, v); } };
template <typename T> struct GEN<booster::hold_ptr<T> > { static void f(rng &r, booster::hold_ptr<T> &v) { gen_ptr<booster::hold_ptr<T>, T>(r, v); } };
template <typename T> struct GEN<booster::copy_ptr<T> > { static void f(rng &r, booster::copy_ptr<T> &v) { gen_ptr<booster::copy_ptr<T>, T>(r, v); } };
template <typename T> struct GEN<std::unique_ptr<T> > { static void f(rng &r, std::unique_ptr<T> &v) { gen_ptr<std::unique_ptr<T>, T>(r, v); } };
template <> struct GEN<point> { static void f(rng &r, point &v) { gen(r, v.x); gen(r, v.y); gen(r, v.label); } };
template <> struct GEN<person> { static void f(rng &r, person &v) { g_depth++; gen(r, v.name); gen(r, v.age); gen(r, v.tags); gen(r, v.scores); gen(r, v.child); gen(r, v.where); gen(r, v.path); gen(r, v.flag); g_depth--; } };
// JSON values travel through archives as JSON text, which the writer prints with 16 significant digits: a number that needs 17 does
// not come back equal (known finding). To keep every other difference visible the comparison is repeated against the original with
// such numbers replaced by what their 16-digit text reads back as.
static bool g_json17 = false;
static double as16(double d) { char b[40]; snprintf(b, sizeof b, "%.16g", d); return strtod(b, 0); }
static void round16(cppcms::json::value &v)
{
	if (v.type() == cppcms::json::is_number) v.number(as16(v.number()));
	else if (v.type() == cppcms::json::is_array) for (auto &e : v.array()) round16(e);
	else if (v.type() == cppcms::json::is_object) for (auto &e : v.object()) round16(e.second);
}
template <typename T> static void round16(T &) {}
static void round16(std::vector<cppcms::json::value> &v) { for (auto &e : v) round16(e); }
static void gen_json(rng &r, cppcms::json::value &v, int depth)
{
	switch (r.below(depth > 3 ? 5 : 7)) {
	case 0: v = cppcms::json::null(); break;
	case 1: v = r.chance(1, 2); break;
	case 2:
		if (r.chance(1, 3)) {   // any finite double: the archive carries JSON text, which has to identify the number exactly
			double d; do { uint64_t b = r.next(); memcpy(&d, &b, 8); } while (!(d - d == 0));
			if (r.chance(1, 3)) d = (double)r.range(-1000, 1000) + (double)r.range(0, 1 << 20) / (1 << 20) * 0.1;
			v = d; O().count("json_values_with_arbitrary_doubles"); if (as16(d) != d) { g_json17 = true; O().count("json_numbers_needing_17_digits"); }
		}
		else v = (double)r.range(-100000, 100000) / (r.chance(1, 2) ? 1 : 8);
		break;
	case 3: { std::string s; int n = r.below(10); for (int i = 0; i < n; i++) s += (char)(r.chance(1, 6) ? r.range(1, 31) : r.range(32, 126)); if (r.chance(1, 4)) s += "\xc3\xa9\xe2\x82\xac"; v = s; break; }
	case 4: v = std::string(); break;
	case 5: { v = cppcms::json::array(); int n = r.below(4); for (int i = 0; i < n; i++) { cppcms::json::value e; gen_json(r, e, depth + 1); v.array().push_back(e); } break; }
	default: { v = cppcms::json::object(); int n = r.below(4); for (int i = 0; i < n; i++) { cppcms::json::value e; gen_json(r, e, depth + 1); std::string k(1 + r.below(3), (char)r.range('a', 'e')); v.object()[k] = e; } }
	}
}
template <> struct GEN<cppcms::json::value> { static void f(rng &r, cppcms::json::value &v) { gen_json(r, v, 0); } };

// ------------------------------------------------------------------ strict shadow reader (independent of cppcms::archive)
struct reader {
	std::string const &b; size_t pos; std::vector<size_t> headers;
	explicit reader(std::string const &s) : b(s), pos(0) {}
	bool chunk(char const *&p, size_t &len) {
		if (pos > b.size() || b.size() - pos < 4) return false;
		uint32_t l; memcpy(&l, b.data() + pos, 4);
		if ((size_t)l > b.size() - pos - 4) return false;
		headers.push_back(pos);
		p = b.data() + pos + 4; len = l; pos += 4 + (size_t)l; return true;
	}
	bool fixed(void *out, size_t n) { char const *p; size_t l; if (!chunk(p, l) || l != n) return false; memcpy(out, p, n); return true; }
};
template <typename T> struct SH;
template <typename T> bool shread(reader &r, T &v) { return SH<T>::f(r, v); }
#define SH_POD(T) template <> struct SH<T> { static bool f(reader &r, T &v) { return r.fixed(&v, sizeof(T)); } }; \
	template <> struct SH<std::vector<T> > { static bool f(reader &r, std::vector<T> &v) { char const *p; size_t l; if (!r.chunk(p, l) || l % sizeof(T)) return false; v.resize(l / sizeof(T)); if (l) memcpy(&v[0], p, l); return true; } };
SH_POD(char) SH_POD(signed char) SH_POD(unsigned char) SH_POD(short) SH_POD(unsigned short) SH_POD(int) SH_POD(unsigned) SH_POD(long) SH_POD(unsigned long) SH_POD(long long) SH_POD(unsigned long long) SH_POD(wchar_t) SH_POD(float) SH_POD(double) SH_POD(long double)
template <> struct SH<std::string> { static bool f(reader &r, std::string &v) { char const *p; size_t l; if (!r.chunk(p, l)) return false; v.assign(p, l); return true; } };
template <typename A, typename B> struct SH<std::pair<A, B> > { static bool f(reader &r, std::pair<A, B> &v) { return shread(r, const_cast<typename std::remove_const<A>::type &>(v.first)) && shread(r, v.second); } };
template <typename C, typename E> bool sh_container(reader &r, C &v) {
	size_t n; if (!r.fixed(&n, sizeof n)) return false;
	v.clear();
	for (size_t i = 0; i < n; i++) { E e; if (!shread(r, e)) return false; v.insert(v.end(), e); }
	return true;
}
template <typename T> struct SH<std::vector<T> > { static bool f(reader &r, std::vector<T> &v) { return sh_container<std::vector<T>, T>(r, v); } };
template <typename T> struct SH<std::list<T> > { static bool f(reader &r, std::list<T> &v) { return sh_container<std::list<T>, T>(r, v); } };
template <typename T> struct SH<std::set<T> > { static bool f(reader &r, std::set<T> &v) { return sh_container<std::set<T>, T>(r, v); } };
template <typename T> struct SH<std::multiset<T> > { static bool f(reader &r, std::multiset<T> &v) { return sh_container<std::multiset<T>, T>(r, v); } };
template <typename K, typename V> struct SH<std::map<K, V> > { static bool f(reader &r, std::map<K, V> &v) { return sh_container<std::map<K, V>, std::pair<K, V> >(r, v); } };
template <typename K, typename V> struct SH<std::multimap<K, V> > { static bool f(reader &r, std::multimap<K, V> &v) { return sh_container<std::multimap<K, V>, std::pair<K, V> >(r, v); } };
template <typename P, typename T> bool sh_ptr(reader &r, P &p) { char e; if (!r.fixed(&e, 1)) return false; if (e) { p.reset(); return true; } p.reset(new T()); return shread(r, *p); }
template <typename T> struct SH<booster::shared_ptr<T> > { static bool f(reader &r, booster::shared_ptr<T> &v) { return sh_ptr<booster::shared_ptr<T>, T>(r, v); } };
template <typename T> struct SH<booster::hold_ptr<T> > { static bool f(reader &r, booster::hold_ptr<T> &v) { return sh_ptr<booster::hold_ptr<T>, T>(r, v); } };
template <typename T> struct SH<booster::copy_ptr<T> > { static bool f(reader &r, booster::copy_ptr<T> &v) { return sh_ptr<booster::copy_ptr<T>, T>(r, v); } };
template <typename T> struct SH<std::unique_ptr<T> > { static bool f(reader &r, std::unique_ptr<T> &v) { return sh_ptr<std::unique_ptr<T>, T>(r, v); } };
template <> struct SH<point> { static bool f(reader &r, point &v) { return shread(r, v.x) && shread(r, v.y) && shread(r, v.label); } };
template <> struct SH<person> { static bool f(reader &r, person &v) { return shread(r, v.name) && shread(r, v.age) && shread(r, v.tags) && shread(r, v.scores) && shread(r, v.child) && shread(r, v.where) && shread(r, v.path) && shread(r, v.flag); } };
template <> struct SH<cppcms::json::value> { static bool f(reader &r, cppcms::json::value &v) { std::string s; if (!shread(r, s)) return false; std::istringstream ss(s); return v.load(ss, true); } };

// ------------------------------------------------------------------ the universe
struct type_base {
	virtual ~type_base() {}
	virtual char const *name() const = 0;
	virtual std::string make(rng &r, std::vector<size_t> &headers) = 0;     // generates a value, keeps it, returns archive; also checks round trip
	virtual void try_load(std::string const &bytes, std::string const &what, bool must_equal_kept) = 0;
};
static std::string g_type;
static void viol(std::string const &key, std::string const &bytes, std::string const &detail = "")
{
	O().viol(key + ":" + g_type, detail + " archive=" + hex(bytes.substr(0, 600)) + (bytes.size() > 600 ? "..." : ""), "{\"type\":\"" + g_type + "\",\"archive\":\"" + hex(bytes) + "\"}");
}
template <typename T> struct type_impl : public type_base {
	char const *nm; T kept;
	explicit type_impl(char const *n) : nm(n) {}
	char const *name() const { return nm; }
	std::string make(rng &r, std::vector<size_t> &headers) {
		g_type = nm;
		g_json17 = false;
		gen(r, kept);
		cppcms::archive a;
		a << kept;
		std::string bytes = a.str();
		constexpr bool is_json = std::is_same<T, cppcms::json::value>::value || std::is_same<T, std::vector<cppcms::json::value> >::value;
		// what a JSON value is expected to come back as when some of its numbers need 17 digits (see round16)
		auto same_but_16_digits = [&](T const &got) { if constexpr (is_json) { if (!g_json17) return false; T k2 = kept; round16(k2); return eq(got, k2); } else return false; };
		// (1) cppcms round trip via operator>>, operator& and serialization_traits
		{
			T back = T();
			cppcms::archive b; b.str(bytes);
			try { b >> back; if (!eq(back, kept)) viol(same_but_16_digits(back) ? "roundtrip:json-number-that-needs-17-digits-differs" : "roundtrip:value-differs", bytes); if (!b.eof()) viol("roundtrip:bytes-left-over", bytes); }
			catch (std::exception const &e) { viol("roundtrip:valid-archive-rejected", bytes, e.what()); }
			T back2 = T();
			cppcms::archive c; c.str(bytes); c.mode(cppcms::archive::load_from_archive);
			try { c & back2; if (!eq(back2, kept) && !same_but_16_digits(back2)) viol("roundtrip:value-differs-amp", bytes); } catch (std::exception const &e) { viol("roundtrip:valid-archive-rejected-amp", bytes, e.what()); }
			if constexpr (std::is_base_of<cppcms::serializable_base, T>::value) {
				std::string ser; cppcms::serialization_traits<T>::save(kept, ser);
				T back3 = T(); cppcms::serialization_traits<T>::load(ser, back3);
				if (ser != bytes || !eq(back3, kept)) viol("roundtrip:serialization_traits", bytes);
				O().count("serialization_traits_roundtrips");
			}
		}
		// (2) the shadow reader understands the same bytes (validates the oracle itself)
		{
			T sv = T(); reader rd(bytes);
			if (!shread(rd, sv) || rd.pos != bytes.size() || (!eq(sv, kept) && !same_but_16_digits(sv))) O().viol(std::string("harness:shadow-reader-disagrees-on-valid-archive:") + nm, hex(bytes));
			headers = rd.headers;
		}
		O().count("roundtrips");
		return bytes;
	}
	void try_load(std::string const &bytes, std::string const &what, bool) {
		g_type = nm;
		T v = T();
		bool ok = false;
		try {
			// exact-capacity copy: an over-read past the archive lands in an ASan red zone when the string is heap allocated
			std::string exact(bytes.data(), bytes.size());
			cppcms::archive a; a.str(exact);
			a >> v;
			ok = true;
		} catch (std::exception const &) { O().count("malformed_rejected"); }
		O().count("malformed_loads");
		if (!ok) return;
		O().count("malformed_accepted");
		T sv = T(); reader rd(bytes);
		if (!shread(rd, sv)) { viol("malformed:accepted-archive-reading-outside-bounds", bytes, what); return; }
		if (!eq(sv, v)) viol("malformed:accepted-with-different-value", bytes, what);
	}
};

typedef std::vector<std::pair<std::string, std::vector<int> > > t_vpsv;
static std::vector<type_base *> &universe()
{
	static std::vector<type_base *> u;
	if (!u.empty()) return u;
#define T_(...) u.push_back(new type_impl<__VA_ARGS__ >(#__VA_ARGS__))
	T_(int); T_(char); T_(unsigned short); T_(unsigned long long); T_(double); T_(float); T_(long double); T_(std::string);
	T_(std::vector<char>); T_(std::vector<int>); T_(std::vector<double>); T_(std::vector<wchar_t>); T_(std::vector<std::string>);
	T_(std::list<std::string>); T_(std::set<int>); T_(std::multiset<std::string>); T_(std::map<std::string, int>); T_(std::multimap<int, std::string>);
	T_(std::pair<int, std::string>); T_(t_vpsv); T_(std::map<std::string, std::vector<std::string> >);
	T_(booster::shared_ptr<std::string>); T_(booster::hold_ptr<std::vector<int> >); T_(booster::copy_ptr<std::map<std::string, int> >); T_(std::unique_ptr<std::list<int> >);
	T_(std::vector<booster::shared_ptr<std::string> >); T_(cppcms::json::value); T_(std::vector<cppcms::json::value>);
	T_(point); T_(person); T_(std::vector<person>); T_(std::list<std::vector<std::set<long long> > >); T_(std::map<int, booster::shared_ptr<person> >);
	T_(std::vector<std::vector<unsigned char> >); T_(std::set<std::pair<std::string, std::string> >);
	return u;
}

static void put32(std::string &s, size_t off, uint32_t v) { memcpy(&s[off], &v, 4); }

static void malform(type_base *t, std::string const &bytes, std::vector<size_t> const &headers, rng &r, bool all)
{
	// every truncation (all for short archives, sampled otherwise)
	size_t step = (bytes.size() <= 600 || all) ? 1 : 1 + bytes.size() / 300;
	for (size_t n = 0; n < bytes.size(); n += step) t->try_load(bytes.substr(0, n), "truncated to " + std::to_string(n), false);
	// every length field replaced
	for (size_t hi = 0; hi < headers.size(); hi++) {
		if (!all && headers.size() > 60 && !r.chance(60, (int)headers.size())) continue;
		size_t off = headers[hi];
		uint32_t tl; memcpy(&tl, bytes.data() + off, 4);
		uint32_t rem = (uint32_t)(bytes.size() - off - 4);
		uint32_t cand[] = { tl + 1, tl + 2, tl + 3, tl + 4, tl - 1, tl - 2, tl - 3, tl - 4, rem, rem + 1, rem + 2, rem + 3, rem + 4, rem - 1, rem + 7, 0, 1, 0x7fffffffu, 0x80000000u, 0xffffffffu, 0xfffffffeu, 0xfffffffdu, 0xfffffffcu,
			(uint32_t)(0u - (uint32_t)off), (uint32_t)(0u - (uint32_t)off - 1), (uint32_t)(0u - (uint32_t)off - 4), tl * 2, tl + 8 };
		for (uint32_t c : cand) {
			if (c == tl) continue;
			std::string m = bytes; put32(m, off, c);
			t->try_load(m, "length field at " + std::to_string(off) + " set to " + std::to_string(c), false);
			// the same with the tail cut so that the declared chunk ends 0..3 bytes past the end
			if (c < 100000 && off + 4 + (size_t)c > 3) for (int k = 1; k <= 3; k++) {
				size_t want = off + 4 + (size_t)c - k;
				if (want < off + 4) continue;
				std::string m2 = m; m2.resize(want, 'x');
				t->try_load(m2, "chunk at " + std::to_string(off) + " declared " + std::to_string(c) + " bytes, archive ends " + std::to_string(k) + " early", false);
			}
		}
	}
	// byte flips and splices
	for (int i = 0; i < 40 && !bytes.empty(); i++) {
		std::string m = bytes;
		int k = 1 + r.below(3);
		for (int j = 0; j < k; j++) m[r.below((uint32_t)m.size())] ^= (char)(1 << r.below(8));
		t->try_load(m, "bit flips", false);
	}
}

static void mode_run(args const &a)
{
	rng r(a.num("seed", 1));
	long long cases = a.num("cases", 200);
	bool all = a.has("all");
	std::vector<type_base *> &u = universe();
	for (long long i = 0; i < cases; i++) {
		type_base *t = u[(size_t)(i % (long long)u.size())];
		std::vector<size_t> headers;
		std::string bytes = t->make(r, headers);
		O().count("cases");
		O().seen("archives", mix(fnv(bytes), fnv(t->name(), strlen(t->name()))));
		O().seen("types", fnv(t->name(), strlen(t->name())));
		malform(t, bytes, headers, r, all);
		// random bytes, and another type's archive
		for (int k = 0; k < 4; k++) t->try_load(r.bytes(r.below(64)), "random bytes", false);
		{ std::vector<size_t> h2; type_base *o = u[r.below((uint32_t)u.size())]; if (o != t) { std::string other = o->make(r, h2); t->try_load(other, std::string("archive of ") + o->name(), false); } }
		if (i < 3) O().sample("{\"type\":" + jstr(t->name()) + ",\"archive_len\":" + std::to_string(bytes.size()) + ",\"chunks\":" + std::to_string(headers.size()) + ",\"archive_prefix\":\"" + hex(bytes.substr(0, 40)) + "\"}");
	}
}

#ifdef VERIF_FUZZ
extern "C" int LLVMFuzzerTestOneInput(uint8_t const *data, size_t size)
{
	if (size < 1) return 0;
	std::vector<type_base *> &u = universe();
	type_base *t = u[data[0] % u.size()];
	std::string bytes((char const *)data + 1, size - 1);
	t->try_load(bytes, "fuzz", false);
	if (O().viol_count) { fflush(stdout); abort(); }
	return 0;
}
#else
int main(int argc, char **argv)
{
	args a(argc, argv);
	std::string mode = a.str("mode", "run");
	if (mode == "run") mode_run(a);
	else if (mode == "one") {
		std::string tn = a.str("type"), bytes = unhex(a.str("archive"));
		for (type_base *t : universe()) if (tn == t->name()) t->try_load(bytes, "replay", false);
	}
	finish(a);
	return O().viol_count ? 1 : 0;
}
#endif
