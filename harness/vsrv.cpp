// Server harness: a real cppcms::service with HTTP + SCGI + FastCGI acceptors in one process and
// monitor applications (echo, writer, upload filters); link-time readv()/writev() shims that follow
// per-connection schedules sent by the driver; an event log of what the applications observed.
#include "common/vh.h"
#include <cppcms/service.h>
#include <cppcms/application.h>
#include <cppcms/applications_pool.h>
#include <cppcms/mount_point.h>
#include <cppcms/http_request.h>
#include <cppcms/http_response.h>
#include <cppcms/http_context.h>
#include <cppcms/http_file.h>
#include <cppcms/http_cookie.h>
#include <cppcms/http_content_filter.h>
#include <cppcms/cache_interface.h>
#include <cppcms/copy_filter.h>
#include <cppcms/filters.h>
#include <cppcms/json.h>
#include <booster/aio/io_service.h>
#include <booster/shared_ptr.h>
#include <sys/uio.h>
#include <sys/socket.h>
#include <sys/syscall.h>
#include <netinet/in.h>
#include <sys/un.h>
#include <fcntl.h>
#include <errno.h>
#include <unistd.h>
#include <thread>
#include <functional>
#include <iostream>
#include <fstream>

#ifdef VERIF_COVERAGE_BUILD
extern "C" void __gcov_dump(void);
#endif
using namespace vh;

// ------------------------------------------------------------------ event log
static FILE *g_log = 0;
static std::mutex g_log_m;
static void ev(std::string const &json) { std::lock_guard<std::mutex> g(g_log_m); if (g_log) { fputs(json.c_str(), g_log); fputc('\n', g_log); fflush(g_log); } }

// ------------------------------------------------------------------ I/O shims
struct sched { std::vector<long> r, w; };
struct fdstate { int port; size_t ri, wi; std::vector<long> r, w; std::vector<long> reads, writes; long eagain; bool known; };
static std::mutex g_io_m;
static std::map<int, sched> g_sched_by_port;
static std::map<int, fdstate> g_fd;

static int peer_port(int fd)
{
	sockaddr_storage ss; socklen_t len = sizeof ss;
	if (getpeername(fd, (sockaddr *)&ss, &len) != 0) return -1;
	if (ss.ss_family == AF_INET) return ntohs(((sockaddr_in *)&ss)->sin_port);
	if (ss.ss_family == AF_UNIX) {
		// clients bind to the abstract name "\0vc<id>"; ids start at 100000 so they never collide with TCP ports
		sockaddr_un *un = (sockaddr_un *)&ss;
		size_t n = len > offsetof(sockaddr_un, sun_path) ? len - offsetof(sockaddr_un, sun_path) : 0;
		if (n > 3 && un->sun_path[0] == 0 && un->sun_path[1] == 'v' && un->sun_path[2] == 'c') return atoi(std::string(un->sun_path + 3, n - 3).c_str());
	}
	return -1;
}
static fdstate *lookup(int fd)
{
	auto p = g_fd.find(fd);
	if (p != g_fd.end()) return p->second.known ? &p->second : 0;
	fdstate st; st.port = peer_port(fd); st.ri = st.wi = 0; st.eagain = 0; st.known = false;
	if (st.port > 0) { auto s = g_sched_by_port.find(st.port); if (s != g_sched_by_port.end()) { st.r = s->second.r; st.w = s->second.w; st.known = true; g_sched_by_port.erase(s); } }
	g_fd[fd] = st;
	return st.known ? &g_fd[fd] : 0;
}
static std::string jlist(std::vector<long> const &v) { std::string s = "["; for (size_t i = 0; i < v.size() && i < 400; i++) { if (i) s += ","; s += std::to_string(v[i]); } return s + "]"; }
extern "C" int close(int fd)
{
	{
		std::lock_guard<std::mutex> g(g_io_m);
		auto p = g_fd.find(fd);
		if (p != g_fd.end()) {
			if (p->second.known) ev("{\"ev\":\"io\",\"port\":" + std::to_string(p->second.port) + ",\"reads\":" + jlist(p->second.reads) + ",\"writes\":" + jlist(p->second.writes) + ",\"eagain\":" + std::to_string(p->second.eagain) + "}");
			g_fd.erase(p);
		}
	}
	return (int)syscall(SYS_close, fd);
}
extern "C" ssize_t readv(int fd, const struct iovec *iov, int cnt)
{
	long limit = 0;
	{
		std::lock_guard<std::mutex> g(g_io_m);
		fdstate *st = lookup(fd);
		if (st && st->ri < st->r.size()) limit = st->r[st->ri++];
	}
	ssize_t n;
	if (limit > 0) {
		struct iovec tmp[16]; int k = 0; long left = limit;
		for (int i = 0; i < cnt && k < 16 && left > 0; i++) { tmp[k] = iov[i]; if ((long)tmp[k].iov_len > left) tmp[k].iov_len = (size_t)left; left -= (long)tmp[k].iov_len; k++; }
		n = syscall(SYS_readv, fd, tmp, k);
	} else n = syscall(SYS_readv, fd, iov, cnt);
	if (n >= 0) { std::lock_guard<std::mutex> g(g_io_m); auto p = g_fd.find(fd); if (p != g_fd.end() && p->second.known) p->second.reads.push_back((long)n); }
	return n;
}
extern "C" ssize_t writev(int fd, const struct iovec *iov, int cnt)
{
	long limit = 0;
	{
		std::lock_guard<std::mutex> g(g_io_m);
		fdstate *st = lookup(fd);
		if (st && st->wi < st->w.size()) limit = st->w[st->wi++];
	}
	if (limit < 0) {
		// would-block is only legal on a non-blocking descriptor; a blocking one gets a 1-byte short write instead
		int fl = fcntl(fd, F_GETFL);
		if (fl >= 0 && (fl & O_NONBLOCK)) { { std::lock_guard<std::mutex> g(g_io_m); auto p = g_fd.find(fd); if (p != g_fd.end()) p->second.eagain++; } errno = EAGAIN; return -1; }
		limit = 1;
	}
	ssize_t n;
	if (limit > 0) {
		struct iovec tmp[16]; int k = 0; long left = limit;
		for (int i = 0; i < cnt && k < 16 && left > 0; i++) { if (iov[i].iov_len == 0) continue; tmp[k] = iov[i]; if ((long)tmp[k].iov_len > left) tmp[k].iov_len = (size_t)left; left -= (long)tmp[k].iov_len; k++; }
		n = k ? syscall(SYS_writev, fd, tmp, k) : syscall(SYS_writev, fd, iov, cnt);
	} else n = syscall(SYS_writev, fd, iov, cnt);
	if (n >= 0) { std::lock_guard<std::mutex> g(g_io_m); auto p = g_fd.find(fd); if (p != g_fd.end() && p->second.known) p->second.writes.push_back((long)n); }
	return n;
}

// ------------------------------------------------------------------ helpers
static std::atomic<long> g_main_calls(0);
static std::string pattern_bytes(unsigned pat, size_t n, size_t from = 0)
{
	std::string s(n, '\0');
	for (size_t i = 0; i < n; i++) { uint32_t x = (uint32_t)(pat * 2654435761u) + (uint32_t)((from + i) * 40503u); x ^= x >> 15; s[i] = (char)(x >> 3); }
	return s;
}
static std::string token_of(cppcms::http::request &rq)
{
	std::string t = rq.getenv("HTTP_X_TOKEN");
	if (t.empty()) t = rq.get("tok");
	return t;
}

// ------------------------------------------------------------------ echo
static void echo_body(cppcms::application &app, std::string const &url, char const *appname)
{
	cppcms::http::request &rq = app.request();
	std::string j = "{\"app\":\"" + std::string(appname) + "\",\"token\":" + jstr(token_of(rq)) + ",\"url\":\"" + hex(url) + "\"";
	j += ",\"method\":\"" + hex(rq.request_method()) + "\",\"script_name\":\"" + hex(rq.script_name()) + "\",\"path_info\":\"" + hex(rq.path_info()) + "\",\"query_string\":\"" + hex(rq.query_string()) + "\"";
	j += ",\"content_type\":\"" + hex(rq.content_type()) + "\",\"content_length\":" + std::to_string(rq.content_length());
	j += ",\"env\":{";
	{ std::map<std::string, std::string> env = rq.getenv(); bool f = true; for (auto const &e : env) { if (!f) j += ","; f = false; j += "\"" + hex(e.first) + "\":\"" + hex(e.second) + "\""; } }
	j += "},\"get\":[";
	{ bool f = true; for (auto const &e : rq.get()) { if (!f) j += ","; f = false; j += "[\"" + hex(e.first) + "\",\"" + hex(e.second) + "\"]"; } }
	j += "],\"post\":[";
	{ bool f = true; for (auto const &e : rq.post()) { if (!f) j += ","; f = false; j += "[\"" + hex(e.first) + "\",\"" + hex(e.second) + "\"]"; } }
	j += "],\"cookies\":[";
	{ bool f = true; for (auto const &e : rq.cookies()) { if (!f) j += ","; f = false; j += "[\"" + hex(e.first) + "\",\"" + hex(e.second.value()) + "\"]"; } }
	j += "],\"files\":[";
	{
		bool f = true;
		for (auto const &fp : rq.files()) {
			if (!f) j += ","; f = false;
			std::string content; std::istream &in = fp->data(); in.clear(); in.seekg(0); std::streambuf *b = in.rdbuf(); int c; while ((c = b->sbumpc()) != EOF) content += (char)c;
			j += "{\"name\":\"" + hex(fp->name()) + "\",\"filename\":\"" + hex(fp->filename()) + "\",\"mime\":\"" + hex(fp->mime()) + "\",\"size\":" + std::to_string(fp->size()) + ",\"hash\":\"" + std::to_string(fnv(content)) + "\",\"len\":" + std::to_string(content.size()) + "}";
		}
	}
	std::pair<void *, size_t> raw = rq.raw_post_data();
	std::string rawd((char const *)raw.first, raw.second);
	j += "],\"raw_len\":" + std::to_string(rawd.size()) + ",\"raw_hash\":\"" + std::to_string(fnv(rawd)) + "\"";
	if (rawd.size() <= 4096) j += ",\"raw\":\"" + hex(rawd) + "\"";
	j += ",\"nmain\":" + std::to_string(++g_main_calls) + "}";
	app.response().set_plain_text_header();
	if (app.response().io_mode() == cppcms::http::response::normal) app.response().io_mode(cppcms::http::response::nogzip);
	app.response().out() << j;
	ev("{\"ev\":\"main\",\"app\":\"" + std::string(appname) + "\",\"token\":" + jstr(token_of(rq)) + "}");
}
class echo_app : public cppcms::application {
public:
	echo_app(cppcms::service &s) : cppcms::application(s) {}
	void main(std::string url) { echo_body(*this, url, is_asynchronous() ? "aecho" : "echo"); }
};

// ------------------------------------------------------------------ writer: executes a script of response operations
struct raw_streamed { std::string const *s; };
static std::ostream &operator<<(std::ostream &o, raw_streamed const &r) { return o.write(r.s->data(), (std::streamsize)r.s->size()); }
struct wop { char op; long a; long b; std::string s1, s2; };
static std::vector<wop> parse_script(std::string const &s)
{
	std::vector<wop> v; size_t p = 0;
	while (p < s.size()) {
		size_t e = s.find(',', p); if (e == std::string::npos) e = s.size();
		std::string t = s.substr(p, e - p); p = e + 1;
		if (t.empty()) continue;
		wop o; o.op = t[0]; o.a = o.b = 0;
		std::string rest = t.substr(1);
		size_t dot = rest.find('.');
		if (o.op == 'h' || o.op == 'c' || o.op == 't' || o.op == 'K' || o.op == 'T' || o.op == 'R' || o.op == 'G' || o.op == 'L' || o.op == 'C') { o.s1 = unhex(dot == std::string::npos ? rest : rest.substr(0, dot)); if (dot != std::string::npos) o.s2 = unhex(rest.substr(dot + 1)); }
		else { o.a = atol(rest.c_str()); if (dot != std::string::npos) o.b = atol(rest.c_str() + dot + 1); }
		v.push_back(o);
	}
	return v;
}
class writer_app : public cppcms::application {
public:
	writer_app(cppcms::service &s) : cppcms::application(s) {}
	struct state { std::vector<wop> ops; size_t pos; std::string store_key; std::string token; state() : pos(0) {} };
	// returns false when execution was suspended on an asynchronous flush
	bool run(booster::shared_ptr<state> st)
	{
		cppcms::http::response &rs = response();
		while (st->pos < st->ops.size()) {
			wop const &o = st->ops[st->pos++];
			switch (o.op) {
			case 'w': { std::string d = pattern_bytes((unsigned)o.b, (size_t)o.a); rs.out().write(d.data(), (std::streamsize)d.size()); break; }
			case 'o': { std::string d = pattern_bytes((unsigned)o.b, (size_t)o.a); rs.out() << d; break; }
			case 'p': { std::string d = pattern_bytes((unsigned)o.b, (size_t)o.a); for (char c : d) rs.out().put(c); break; }
			case 'e': { std::string d = pattern_bytes((unsigned)o.b, (size_t)o.a); raw_streamed r = { &d }; rs.out() << cppcms::filters::escape(r); break; }      // through a template filter (escape of a streamed object)
			case 'u': { std::string d = pattern_bytes((unsigned)o.b, (size_t)o.a); raw_streamed r = { &d }; rs.out() << cppcms::filters::urlencode(r); break; }
			case 'L': rs.out().write(o.s1.data(), (std::streamsize)o.s1.size()); break;   // literal bytes (raw modes: the header block)
			case 'f': rs.out() << std::flush; break;
			case 'Z': rs.finalize(); break;                // the application finalizes the response itself (documented for asynchronous applications)
			case 'b': rs.setbuf((int)o.a); break;
			case 'm': rs.io_mode((cppcms::http::response::io_mode_type)o.a); break;
			case 'a': rs.full_asynchronous_buffering(o.a != 0); break;
			case 'X': throw std::runtime_error("handler failed (scripted)");      // the handler throws: the framework answers in its place
			case 'h': rs.set_header(o.s1, o.s2); break;
			case 'c': rs.set_cookie(cppcms::http::cookie(o.s1, o.s2)); break;
			case 't': rs.content_type(o.s1); break;
			case 's': rs.status((int)o.a); break;
			case 'K': if (cache().fetch_page(o.s1)) { ev("{\"ev\":\"cache_hit\",\"token\":" + jstr(st->token) + "}"); st->pos = st->ops.size(); return true; } st->store_key = o.s1; break;
			case 'G': { std::string fr; if (!cache().fetch_frame(o.s1, fr)) { std::set<std::string> t; if (!o.s2.empty()) t.insert(o.s2); cache().store_frame(o.s1, "frame-content", t); ev("{\"ev\":\"frame_built\",\"token\":" + jstr(st->token) + "}"); } break; }
			case 'C': {   // C<key>.<size as text>: a frame rendered through copy_filter and kept with store_frame (the documented pattern)
				std::string fr; size_t n = (size_t)atol(o.s2.c_str());
				if (cache().fetch_frame(o.s1, fr)) { rs.out() << fr; ev("{\"ev\":\"frame_hit\",\"token\":" + jstr(st->token) + ",\"len\":" + std::to_string(fr.size()) + "}"); }
				else { cppcms::copy_filter tee(rs.out()); std::string d = pattern_bytes(7, n); rs.out().write(d.data(), (std::streamsize)d.size()); cache().store_frame(o.s1, tee.detach()); ev("{\"ev\":\"frame_built\",\"token\":" + jstr(st->token) + "}"); }
				break; }
			case 'T': cache().add_trigger(o.s1); break;
			case 'R': cache().rise(o.s1); break;
			case 'F':
				if (is_asynchronous()) {
					booster::shared_ptr<cppcms::http::context> ctx = release_context();
					booster::intrusive_ptr<writer_app> self(this);
					ctx->async_flush_output([self, ctx, st](cppcms::http::context::completion_type c) {
						if (c != cppcms::http::context::operation_completed) { ev("{\"ev\":\"async_flush_aborted\",\"token\":" + jstr(st->token) + "}"); return; }
						self->assign_context(ctx);
						if (self->run(st)) self->finish(st);
					});
					return false;
				}
				rs.out() << std::flush;
				break;
			default: break;
			}
		}
		return true;
	}
	void finish(booster::shared_ptr<state> st)
	{
		if (!st->store_key.empty()) cache().store_page(st->store_key);
		ev("{\"ev\":\"written\",\"token\":" + jstr(st->token) + ",\"pending\":" + (response().pending_blocked_output() ? "true" : "false") + "}");
		if (is_asynchronous() && has_context()) release_context()->async_complete_response();
	}
	void main(std::string)
	{
		booster::shared_ptr<state> st(new state());
		st->ops = parse_script(request().get("s"));
		st->token = token_of(request());
		response().set_plain_text_header();
		ev("{\"ev\":\"main\",\"app\":\"" + std::string(is_asynchronous() ? "awriter" : "writer") + "\",\"token\":" + jstr(st->token) + "}");
		++g_main_calls;
		if (run(st)) { if (!st->store_key.empty()) cache().store_page(st->store_key); ev("{\"ev\":\"written\",\"token\":" + jstr(st->token) + "}"); }
	}
};

// ------------------------------------------------------------------ upload with content filters
struct upload_data {
	long raw_bytes, raw_chunks, new_files, progress, ready, end_of_content, errors; uint64_t raw_hash; std::string names;
	char abort_kind; long abort_n; int abort_code;      // the filter throws abort_upload(code) at the n-th event of that kind
	char read_kind;                                     // the filter reads the part's data stream to its end in on_data_ready ('r') or on_upload_progress ('p'), as an inspecting filter does
	char release_kind; long release_n;                  // the filter takes itself off the request (release_content_filter) at the n-th event of that kind
	long inspected_bytes;
	upload_data() : raw_bytes(0), raw_chunks(0), new_files(0), progress(0), ready(0), end_of_content(0), errors(0), raw_hash(1469598103934665603ull), abort_kind(0), abort_n(0), abort_code(0), read_kind(0), release_kind(0), release_n(0), inspected_bytes(0) {}
	void inspect(cppcms::http::file &f) { char buf[256]; std::istream &in = f.data(); while (in.read(buf, sizeof buf) || in.gcount() > 0) inspected_bytes += (long)in.gcount(); }
	void set_abort(std::string const &v) { if (v.size() < 2) return; abort_kind = v[0]; abort_n = atol(v.c_str() + 1); size_t dot = v.find('.'); abort_code = dot == std::string::npos ? 403 : atoi(v.c_str() + dot + 1); }
	void maybe_abort(char kind, long count) { if (abort_kind == kind && count == abort_n) throw cppcms::http::abort_upload(abort_code); }
};
class upload_app : public cppcms::application, public cppcms::http::multipart_filter {
public:
	upload_app(cppcms::service &s) : cppcms::application(s) {}
	upload_data *d() { return context().get_specific<upload_data>(); }
	void maybe_release(char kind, long count) { if (d()->release_kind == kind && count == d()->release_n) request().release_content_filter(); }
	void on_new_file(cppcms::http::file &f) { if (!d()) return; d()->new_files++; d()->names += f.name() + ";"; d()->maybe_abort('n', d()->new_files); maybe_release('n', d()->new_files); }
	void on_upload_progress(cppcms::http::file &f) { if (d()) { d()->progress++; d()->maybe_abort('p', d()->progress); if (d()->read_kind == 'p') d()->inspect(f); maybe_release('p', d()->progress); } }
	void on_data_ready(cppcms::http::file &f) { if (d()) { d()->ready++; d()->maybe_abort('r', d()->ready); if (d()->read_kind == 'r') d()->inspect(f); maybe_release('r', d()->ready); } }
	void on_end_of_content() { if (d()) { d()->end_of_content++; d()->maybe_abort('e', d()->end_of_content); } }
	void on_error() { upload_data *u = d(); if (u) u->errors++; ev("{\"ev\":\"on_error\",\"app\":\"upload\",\"token\":" + jstr(token_of(request())) + ",\"errors\":" + std::to_string(u ? u->errors : -1) + "}"); }
	void main(std::string url)
	{
		if (!request().is_ready()) {
			context().reset_specific<upload_data>(new upload_data());
			request().set_content_filter(*this);
			std::string v;
			if ((v = request().get("cl_limit")) != "") request().limits().content_length_limit(atoll(v.c_str()));
			if ((v = request().get("mp_limit")) != "") request().limits().multipart_form_data_limit(atoll(v.c_str()));
			if ((v = request().get("mem_limit")) != "") request().limits().file_in_memory_limit((size_t)atoll(v.c_str()));
			if ((v = request().get("setbuf")) != "") request().setbuf(atoi(v.c_str()));
			if ((v = request().get("abort")) != "") d()->set_abort(v);
			if ((v = request().get("read")) != "") d()->read_kind = v[0];
			if ((v = request().get("release")).size() >= 2) { d()->release_kind = v[0]; d()->release_n = atol(v.c_str() + 1); }
			ev("{\"ev\":\"headers\",\"app\":\"upload\",\"token\":" + jstr(token_of(request())) + "}");
			return;
		}
		upload_data *u = d();
		std::string extra = u ? ("new_files=" + std::to_string(u->new_files) + " ready=" + std::to_string(u->ready) + " progress=" + std::to_string(u->progress) + " eoc=" + std::to_string(u->end_of_content) + " errors=" + std::to_string(u->errors) + " inspected=" + std::to_string(u->inspected_bytes)) : "nodata";
		response().set_header("X-Filter", extra);
		echo_body(*this, url, "upload");
	}
};
class rawup_app : public cppcms::application, public cppcms::http::raw_content_filter {
public:
	rawup_app(cppcms::service &s) : cppcms::application(s) {}
	upload_data *d() { return context().get_specific<upload_data>(); }
	void on_data_chunk(void const *p, size_t n) { if (!d()) return; d()->raw_chunks++; d()->raw_bytes += (long)n; d()->raw_hash = fnv(p, n, d()->raw_hash); d()->maybe_abort('d', d()->raw_chunks); }
	void on_end_of_content() { if (d()) { d()->end_of_content++; d()->maybe_abort('e', d()->end_of_content); } }
	void on_error() { upload_data *u = d(); if (u) u->errors++; ev("{\"ev\":\"on_error\",\"app\":\"rawup\",\"token\":" + jstr(token_of(request())) + ",\"errors\":" + std::to_string(u ? u->errors : -1) + "}"); }
	void main(std::string url)
	{
		if (!request().is_ready()) {
			context().reset_specific<upload_data>(new upload_data());
			request().set_content_filter(*this);
			std::string v;
			if ((v = request().get("cl_limit")) != "") request().limits().content_length_limit(atoll(v.c_str()));
			if ((v = request().get("mp_limit")) != "") request().limits().multipart_form_data_limit(atoll(v.c_str()));
			if ((v = request().get("setbuf")) != "") request().setbuf(atoi(v.c_str()));
			if ((v = request().get("abort")) != "") d()->set_abort(v);
			ev("{\"ev\":\"headers\",\"app\":\"rawup\",\"token\":" + jstr(token_of(request())) + "}");
			return;
		}
		upload_data *u = d();
		upload_data none;
		if (!u) u = &none;
		response().set_header("X-Filter", "raw_bytes=" + std::to_string(u->raw_bytes) + " raw_chunks=" + std::to_string(u->raw_chunks) + " raw_hash=" + std::to_string(u->raw_hash) + " eoc=" + std::to_string(u->end_of_content) + " errors=" + std::to_string(u->errors));
		echo_body(*this, url, "rawup");
	}
};

// ------------------------------------------------------------------ control channel (stdin/stdout)
static cppcms::service *g_srv = 0;
static void control_thread()
{
	std::string line;
	while (std::getline(std::cin, line)) {
		if (line.empty()) continue;
		if (line[0] == 'S') {
			// S <port> r:<a,b,..> w:<a,b,..>
			std::istringstream ss(line.substr(1)); int port; std::string rs, ws; ss >> port >> rs >> ws;
			sched sc;
			auto parse = [](std::string const &t, std::vector<long> &out) { size_t p = 2; while (p < t.size()) { out.push_back(atol(t.c_str() + p)); p = t.find(',', p); if (p == std::string::npos) break; p++; } };
			if (rs.size() > 2) parse(rs, sc.r);
			if (ws.size() > 2) parse(ws, sc.w);
			{ std::lock_guard<std::mutex> g(g_io_m); g_sched_by_port[port] = sc; }
			fputs("K\n", stdout); fflush(stdout);
		} else if (line[0] == 'P') { fprintf(stdout, "P %ld\n", g_main_calls.load()); fflush(stdout); }
		else if (line[0] == 'Q') break;
	}
	if (g_srv) g_srv->shutdown();
}

// an application may install a global C++ locale with digit grouping (std::locale::global(std::locale("en_US.UTF-8")) does): numbers the
// library puts on the wire (lengths, chunk sizes, status codes, cookie ages) must not pick it up
struct grouping_punct : std::numpunct<char> {
	char do_thousands_sep() const override { return ','; }
	std::string do_grouping() const override { return "\3"; }
};
int main(int argc, char **argv)
{
	args a(argc, argv);
	if (getenv("VSRV_GROUPING_LOCALE")) std::locale::global(std::locale(std::locale::classic(), new grouping_punct()));
	std::string cfgfile = a.str("config");
	std::string logfile = a.str("log");
	if (!logfile.empty()) g_log = fopen(logfile.c_str(), "w");
	cppcms::json::value cfg;
	{ std::ifstream f(cfgfile.c_str()); if (!f || !cfg.load(f, true)) { fprintf(stderr, "vsrv: bad config %s\n", cfgfile.c_str()); return 3; } }
	try {
		cppcms::service srv(cfg);
		g_srv = &srv;
		using cppcms::mount_point;
		if (!cfg.get("file_server.enable", false)) {
			srv.applications_pool().mount(cppcms::create_pool<echo_app>(), mount_point("/echo"));
			srv.applications_pool().mount(cppcms::create_pool<echo_app>(), mount_point("/aecho"), cppcms::app::asynchronous);
			srv.applications_pool().mount(cppcms::create_pool<writer_app>(), mount_point("/writer"));
			srv.applications_pool().mount(cppcms::create_pool<writer_app>(), mount_point("/awriter"), cppcms::app::asynchronous);
			srv.applications_pool().mount(cppcms::create_pool<upload_app>(), mount_point("/upload"), cppcms::app::asynchronous | cppcms::app::content_filter);
			srv.applications_pool().mount(cppcms::create_pool<rawup_app>(), mount_point("/rawup"), cppcms::app::asynchronous | cppcms::app::content_filter);
		}
		std::thread(control_thread).detach();
		fputs("READY\n", stdout); fflush(stdout);
		srv.run();
		ev("{\"ev\":\"exit\",\"main_calls\":" + std::to_string(g_main_calls.load()) + "}");
		fputs("BYE\n", stdout); fflush(stdout);
	} catch (std::exception const &e) {
		fprintf(stderr, "vsrv: exception escaped service::run(): %s\n", e.what());
		ev("{\"ev\":\"escaped_exception\",\"what\":" + jstr(e.what()) + "}");
		fputs("CRASH\n", stdout); fflush(stdout);
		_exit(70);
	}
#ifdef VERIF_COVERAGE_BUILD
	__gcov_dump();
#endif
	_exit(0);
}
