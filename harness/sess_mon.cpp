// C05 monitor: client-side session cookies. Drives sessions::session_cookies::load with cookies built
// from the real encryptors and from every kind of tampering of the decoded cipher text.
#include "common/vh.h"
#include "common/clock_shim.h"
#include <cppcms/session_cookies.h>
#include <cppcms/session_interface.h>
#include <cppcms/session_pool.h>
#include <cppcms/http_cookie.h>
#include <cppcms/json.h>
#include <cppcms/cppcms_error.h>
#include "hmac_encryptor.h"
#include "aes_encryptor.h"
#include <memory>

using namespace vh;
namespace sess = cppcms::sessions;

// own base64url (no padding) so that cookies are not built with the code under test
static std::string b64(std::string const &in)
{
	static char const A[] = "ABCDEFGHIJKLMNOPQRSTUVWXYZabcdefghijklmnopqrstuvwxyz0123456789-_";
	std::string o; size_t i = 0;
	for (; i + 2 < in.size(); i += 3) { unsigned v = ((unsigned char)in[i] << 16) | ((unsigned char)in[i + 1] << 8) | (unsigned char)in[i + 2]; o += A[v >> 18]; o += A[(v >> 12) & 63]; o += A[(v >> 6) & 63]; o += A[v & 63]; }
	if (in.size() - i == 1) { unsigned v = (unsigned char)in[i] << 16; o += A[v >> 18]; o += A[(v >> 12) & 63]; }
	if (in.size() - i == 2) { unsigned v = ((unsigned char)in[i] << 16) | ((unsigned char)in[i + 1] << 8); o += A[v >> 18]; o += A[(v >> 12) & 63]; o += A[(v >> 6) & 63]; }
	return o;
}

struct jar : public cppcms::session_interface_cookie_adapter {
	std::map<std::string, std::string> cookies;
	int deletes = 0, sets = 0;
	void set_cookie(cppcms::http::cookie const &c) override {
		bool del = (c.max_age_defined() && c.max_age() == 0) || (c.expires_defined() && c.expires() <= 1) || c.value().empty();
		if (del) { cookies.erase(c.name()); deletes++; } else { cookies[c.name()] = c.value(); sets++; }
	}
	std::string get_session_cookie(std::string const &name) override { auto p = cookies.find(name); return p == cookies.end() ? std::string() : p->second; }
	std::set<std::string> get_cookie_names() override { std::set<std::string> s; for (auto const &c : cookies) s.insert(c.first); return s; }
};

struct config {
	std::string name; bool encrypting;
	std::unique_ptr<sess::encryptor_factory> f;
	std::set<std::pair<std::string, long> > saves;       // everything this key material ever issued
	std::set<std::string> ciphers;
	std::map<size_t, size_t> cipher_len;
	// how this key material was configured, so that a sibling differing in one key bit can be built
	int kind; std::string algo, algo2, key1, key2;
	std::unique_ptr<sess::encryptor_factory> make(std::string const &k1, std::string const &k2) const {
		using cppcms::crypto::key;
		if (kind == 0) return std::unique_ptr<sess::encryptor_factory>(new sess::impl::hmac_factory(algo, key(k1.data(), k1.size())));
		if (kind == 1) return std::unique_ptr<sess::encryptor_factory>(new sess::impl::aes_factory(algo, key(k1.data(), k1.size()), algo2, key(k2.data(), k2.size())));
		return std::unique_ptr<sess::encryptor_factory>(new sess::impl::aes_factory(algo, key(k1.data(), k1.size())));
	}
};
static std::string rkey(rng &r, size_t n) { return r.bytes(n); }
static std::vector<std::unique_ptr<config> > make_configs(rng &r)
{
	std::vector<std::unique_ptr<config> > v;
	static char const *hm[] = { "md5", "sha1", "sha224", "sha256", "sha384", "sha512" };
	for (int i = 0; i < 6; i++) {
		std::unique_ptr<config> c(new config()); size_t kl = (size_t[]){ 16, 20, 64, 129 }[r.below(4)];
		std::string k = rkey(r, kl);
		c->name = std::string("hmac-") + hm[i] + "/key" + std::to_string(kl); c->encrypting = false;
		c->kind = 0; c->algo = hm[i]; c->key1 = k; c->f = c->make(k, "");
		v.push_back(std::move(c));
	}
	static char const *ae[] = { "aes", "aes128", "aes192", "aes256", "aes-256" };
	static size_t const aks[] = { 16, 16, 24, 32, 32 };
	for (int i = 0; i < 5; i++) {
		// split cbc / hmac keys
		std::unique_ptr<config> c(new config()); int h = r.below(6);
		std::string ck = rkey(r, aks[i]), hk = rkey(r, 16 + r.below(50));
		c->name = std::string(ae[i]) + "+hmac-" + hm[h] + "/split"; c->encrypting = true;
		c->kind = 1; c->algo = ae[i]; c->algo2 = hm[h]; c->key1 = ck; c->key2 = hk; c->f = c->make(ck, hk);
		v.push_back(std::move(c));
		// combined key: exact size (cbc key + sha1 digest) or derived from a longer/shorter one
		std::unique_ptr<config> d(new config());
		size_t kl; switch (r.below(6)) { case 0: case 1: kl = aks[i] + 20; break; case 2: kl = aks[i] + r.below(40); break; case 3: kl = aks[i] + 21 + r.below(12); break; case 4: kl = 64; break; default: kl = 60 + r.below(70); }
		std::string k = rkey(r, kl);
		d->name = std::string(ae[i]) + "/combined-key" + std::to_string(kl); d->encrypting = true;
		d->kind = 2; d->algo = ae[i]; d->key1 = k; d->f = d->make(k, "");
		v.push_back(std::move(d));
	}
	return v;
}

static std::unique_ptr<cppcms::session_pool> g_pool;
static std::string pack(long t, std::string const &data) { time_t tt = (time_t)t; std::string s((char const *)&tt, sizeof tt); return s + data; }

struct loadres { bool ok; std::string data; long timeout; bool cleared; bool threw; };
static loadres do_load(config &c, std::string const &cookie_value, bool fresh_object, sess::session_cookies *reuse)
{
	loadres r; r.ok = false; r.timeout = -1; r.cleared = false; r.threw = false;
	jar j;
	if (!cookie_value.empty()) j.cookies["sc"] = cookie_value;
	cppcms::session_interface si(*g_pool, j);
	std::unique_ptr<sess::session_cookies> own;
	sess::session_cookies *sc = reuse;
	if (fresh_object || !reuse) { own.reset(new sess::session_cookies(c.f->get())); sc = own.get(); }
	std::string data = "UNSET"; time_t t = -1;
	try { r.ok = sc->load(si, data, t); } catch (std::exception const &) { r.threw = true; }
	r.data = data; r.timeout = (long)t;
	r.cleared = j.deletes > 0 && !j.cookies.count("sc");
	return r;
}

static void judge_reject(config &c, std::string const &cipher, char const *how, std::string const &origin_desc)
{
	if (c.ciphers.count(cipher)) return;                       // the mutation reproduced a genuine cipher text
	std::string cookie = "C" + b64(cipher);
	loadres r = do_load(c, cookie, true, 0);
	O().count("tampered_cookies");
	O().count(std::string("tampered_") + how);
	std::string rp = "{\"config\":" + jstr(c.name) + ",\"tampering\":" + jstr(how) + ",\"cookie\":" + jstr(cookie.substr(0, 400)) + ",\"origin\":" + jstr(origin_desc) + "}";
	if (r.threw) { O().viol(std::string("cookie:load-threw:") + how, c.name, rp); return; }
	if (r.ok) {
		bool genuine = c.saves.count(std::make_pair(r.data, r.timeout)) != 0;
		O().viol(std::string(genuine ? "cookie:tampered-cookie-accepted:" : "cookie:forged-data-accepted:") + how, c.name + " " + origin_desc, rp);
		return;
	}
	if (!r.cleared) O().viol(std::string("cookie:rejected-cookie-not-cleared:") + how, c.name, rp);
}

static void run_config(rng &r, config &c, std::vector<std::unique_ptr<config> > &all, long long rounds, bool exhaustive_flips)
{
	std::unique_ptr<sess::encryptor> enc = c.f->get();
	sess::session_cookies reused(c.f->get());
	std::vector<std::string> recent;
	for (long long it = 0; it < rounds; it++) {
		long now = vclock::now();
		size_t n;
		switch (r.below(6)) { case 0: n = r.below(81); break; case 1: n = (size_t[]){ 0, 7, 8, 15, 16, 17, 31, 32, 33, 47, 48, 63, 64, 65 }[r.below(14)]; break; case 2: n = r.below(2000); break; case 3: n = r.chance(1, 10) ? r.below(65536) : r.below(300); break; default: n = r.below(81); }
		std::string payload = r.bytes(n);
		long t;
		switch (r.below(7)) { case 0: t = now; break; case 1: t = now + 1; break; case 2: t = now - 1; break; case 3: t = now - r.range(2, 100000); break; case 4: t = 0x7fffffffL; break; default: t = now + r.range(2, 100000); }
		std::string cipher = (r.chance(1, 2) ? enc : (enc = c.f->get()))->encrypt(pack(t, payload));
		c.saves.insert(std::make_pair(payload, t));
		c.ciphers.insert(cipher);
		std::string cookie = "C" + b64(cipher);
		std::string desc = "payload_len=" + std::to_string(n) + " expiry=now" + (t >= now ? "+" : "") + std::to_string(t - now);
		std::string rp = "{\"config\":" + jstr(c.name) + ",\"cookie\":" + jstr(cookie.substr(0, 400)) + ",\"case\":" + jstr(desc) + "}";
		O().count("genuine_cookies");
		O().seen("cookies", fnv(cipher));
		// (B) + (A): save then load, on a fresh object and on a long-lived one
		for (int k = 0; k < 2; k++) {
			loadres l = do_load(c, cookie, k == 0, &reused);
			if (l.threw) { O().viol("cookie:load-threw:genuine", c.name, rp); continue; }
			if (t >= now) {
				if (!l.ok) O().viol("cookie:genuine-unexpired-cookie-rejected", c.name + " " + desc, rp);
				else if (l.data != payload || l.timeout != t) O().viol("cookie:load-returns-other-than-saved", c.name + " " + desc, rp);
				else O().count("genuine_accepted");
			} else {
				if (l.ok) O().viol("cookie:expired-cookie-accepted", c.name + " " + desc, rp);
				else { O().count("expired_rejected"); if (!l.cleared) O().viol("cookie:rejected-cookie-not-cleared:expired", c.name, rp); }
			}
		}
		// the same cookie after its deadline passed
		if (t >= now && t < now + 100000 && r.chance(1, 4)) {
			long keep = vclock::now();
			vclock::now() = t; loadres a = do_load(c, cookie, true, 0);
			vclock::now() = t + 1; loadres b = do_load(c, cookie, true, 0);
			vclock::now() = keep;
			if (!a.ok) O().viol("cookie:rejected-at-its-deadline", c.name, rp);
			if (b.ok) O().viol("cookie:accepted-after-its-deadline", c.name, rp);
			O().count("deadline_edge_checks");
		}
		// (D) necessary conditions for confidentiality
		if (c.encrypting) {
			std::string again = enc->encrypt(pack(t, payload));
			c.ciphers.insert(again);
			if (again == cipher) O().viol("cookie:equal-payloads-give-equal-cipher-text", c.name, rp);
			if (n >= 16) for (size_t off = 0; off + 8 <= n; off += 4) if (cipher.find(payload.substr(off, 8)) != std::string::npos) { O().viol("cookie:payload-visible-in-cipher-text", c.name, rp); break; }
			auto p = c.cipher_len.find(n);
			if (p == c.cipher_len.end()) c.cipher_len[n] = cipher.size(); else if (p->second != cipher.size()) O().viol("cookie:cipher-length-depends-on-content", c.name, rp);
			O().count("confidentiality_checks");
		}
		// (C) tampering with the decoded cipher text
		size_t L = cipher.size();
		bool allflips = exhaustive_flips && L <= 140;
		size_t nflips = allflips ? L * 8 : 48;
		for (size_t q = 0; q < nflips; q++) { size_t bit = allflips ? q : r.below((uint32_t)L * 8); std::string m = cipher; m[bit / 8] ^= (char)(1 << (bit % 8)); judge_reject(c, m, "bitflip", desc + " bit " + std::to_string(bit)); }
		size_t tstep = (exhaustive_flips && L <= 300) ? 1 : 1 + L / 24;
		for (size_t k = 0; k < L; k += tstep) judge_reject(c, cipher.substr(0, k), "truncate", desc + " to " + std::to_string(k));
		{ static size_t const ext[] = { 1, 15, 16, 20, 32, 64 }; for (size_t e : ext) { judge_reject(c, cipher + std::string(e, '\0'), "extend", desc); judge_reject(c, cipher + r.bytes(e), "extend", desc); judge_reject(c, r.bytes(e) + cipher, "prepend", desc); } }
		if (L >= 48) for (int q = 0; q < 6; q++) { size_t a = 16 * r.below((uint32_t)(L / 16)), b = 16 * r.below((uint32_t)(L / 16)); if (a == b) continue; std::string m = cipher; for (int z = 0; z < 16; z++) std::swap(m[a + z], m[b + z]); judge_reject(c, m, "blockswap", desc); }
		for (std::string const &o : recent) {
			for (int q = 0; q < 4; q++) { size_t k = r.chance(1, 2) ? 16 * r.below((uint32_t)(std::min(L, o.size()) / 16 + 1)) : r.below((uint32_t)std::min(L, o.size()) + 1); judge_reject(c, cipher.substr(0, k) + o.substr(std::min(k, o.size())), "splice", desc); judge_reject(c, o.substr(0, k) + cipher.substr(std::min(k, L)), "splice", desc); }
			// MAC of one cookie under the body of another
			if (o.size() >= 20 && L >= 20) { std::string m = cipher; size_t d = 16; memcpy(&m[L - d], o.data() + o.size() - d, d); judge_reject(c, m, "mac-transplant", desc); }
		}
		// transplant: genuine cookies of other key material / algorithms
		for (int q = 0; q < 3; q++) { config &o = *all[r.below((uint32_t)all.size())]; if (&o == &c) continue; std::string oc = o.f->get()->encrypt(pack(t >= now ? t : now + 5, payload)); judge_reject(c, oc, "other-key-or-algorithm", desc + " made by " + o.name); }
		// ... and of key material that differs from the configured one in a single bit (every byte of the key must matter)
		for (int q = 0; q < 2; q++) {
			std::string k1 = c.key1, k2 = c.key2;
			std::string &k = (c.kind == 1 && r.chance(1, 2)) ? k2 : k1;
			size_t pos; switch (r.below(4)) { case 0: pos = 0; break; case 1: pos = k.size() - 1; break; default: pos = r.below((uint32_t)k.size()); }
			k[pos] ^= (char)(1 << r.below(8));
			std::unique_ptr<sess::encryptor_factory> sib = c.make(k1, k2);
			std::string oc = sib->get()->encrypt(pack(t >= now ? t : now + 5, payload));
			judge_reject(c, oc, "near-key", desc + " made under the same configuration with bit flipped in byte " + std::to_string(pos) + " of the " + std::to_string(k.size()) + "-byte " + (&k == &k2 ? "hmac key" : "key"));
			O().seen("near_key_positions", mix(mix(c.kind, k.size()), pos));
		}
		recent.push_back(cipher); if (recent.size() > 3) recent.erase(recent.begin());
		// arbitrary strings as the whole cookie value
		for (int q = 0; q < 4; q++) {
			std::string cv;
			switch (r.below(7)) { case 0: cv = "C"; break; case 1: cv = "C" + b64(r.bytes(r.below(100))); break; case 2: cv = r.bytes(r.below(60)); break; case 3: cv = "I" + cookie.substr(1); break; case 4: cv = "C" + cookie.substr(1) + "="; break; case 5: cv = "C" + std::string(r.below(5000), 'A'); break; default: cv = "C!!!!" + cookie.substr(5 < cookie.size() ? 5 : 0); }
			if (cv == cookie) continue;
			loadres l = do_load(c, cv, true, 0);
			O().count("arbitrary_cookies");
			std::string rp2 = "{\"config\":" + jstr(c.name) + ",\"cookie\":" + jstr(cv.substr(0, 200)) + "}";
			if (l.threw) O().viol("cookie:load-threw:arbitrary", c.name, rp2);
			else if (l.ok && !c.saves.count(std::make_pair(l.data, l.timeout))) O().viol("cookie:forged-data-accepted:arbitrary", c.name, rp2);
			else if (!l.ok && !cv.empty() && !l.cleared) O().viol("cookie:rejected-cookie-not-cleared:arbitrary", c.name, rp2);
		}
		if (it == 0) O().sample("{\"config\":" + jstr(c.name) + ",\"cookie\":" + jstr(cookie.substr(0, 80)) + ",\"case\":" + jstr(desc) + "}", 6);
		if (r.chance(1, 10)) vclock::now() += r.range(0, 50);
	}
}

static void refusals()
{
	// configuration must refuse weak or inconsistent set-ups
	struct tc { char const *json; bool must_throw; };
	static const tc T[] = {
		{ "{\"session\":{\"location\":\"client\"}}", true },
		{ "{\"session\":{\"location\":\"client\",\"client\":{\"cbc\":\"aes\",\"cbc_key\":\"00112233445566778899aabbccddeeff\"}}}", true },
		{ "{\"session\":{\"location\":\"client\",\"client\":{\"encryptor\":\"hmac\",\"key\":\"00112233\"}}}", true },
		{ "{\"session\":{\"location\":\"client\",\"client\":{\"encryptor\":\"hmac\",\"hmac\":\"sha1\",\"key\":\"00112233445566778899aabbccddeeff\",\"hmac_key\":\"00112233445566778899aabbccddeeff\"}}}", true },
		{ "{\"session\":{\"location\":\"client\",\"client\":{\"encryptor\":\"aes\",\"key\":\"0011\"}}}", true },
		{ "{\"session\":{\"location\":\"client\",\"client\":{\"encryptor\":\"rot13\",\"key\":\"00112233445566778899aabbccddeeff\"}}}", true },
		{ "{\"session\":{\"location\":\"client\",\"client\":{\"encryptor\":\"hmac\",\"key\":\"00112233445566778899aabbccddeeff\"}}}", false },
		{ "{\"session\":{\"location\":\"client\",\"client\":{\"encryptor\":\"aes256\",\"key\":\"00112233445566778899aabbccddeeff00112233445566778899aabbccddeeff\"}}}", false },
		{ "{\"session\":{\"location\":\"client\",\"client\":{\"hmac\":\"sha256\",\"hmac_key\":\"00112233445566778899aabbccddeeff\",\"cbc\":\"aes128\",\"cbc_key\":\"00112233445566778899aabbccddeeff\"}}}", false },
	};
	for (auto const &t : T) {
		cppcms::json::value v; std::istringstream ss(t.json); v.load(ss, true);
		bool threw = false;
		try { cppcms::session_pool p(v); p.init(); if (!p.get()) threw = true; } catch (std::exception const &) { threw = true; }
		O().count("configuration_checks");
		if (threw != t.must_throw) O().viol(t.must_throw ? "cookie:weak-configuration-accepted" : "cookie:valid-configuration-refused", t.json);
	}
	bool threw = false;
	try { std::string k(15, 'k'); sess::impl::hmac_cipher c("sha1", cppcms::crypto::key(k.data(), k.size())); } catch (std::exception const &) { threw = true; }
	if (!threw) O().viol("cookie:weak-configuration-accepted", "15-byte hmac key");
}

// "issued by this server" as the server is CONFIGURED: two services whose configurations differ in one bit of one configured key
// (the single key, the cipher key or the signature key of a split-key set-up) must not accept each other's cookies; identical
// configurations must. Goes through session_pool::init(), where the configuration is turned into key material.
static std::string hexs(std::string const &b) { static char const *d = "0123456789abcdef"; std::string o; for (unsigned char c : b) { o += d[c >> 4]; o += d[c & 15]; } return o; }
static bool issue_and_present(cppcms::json::value const &issuer, cppcms::json::value const &verifier, std::string &detail)
{
	cppcms::session_pool pa(issuer); pa.init();
	cppcms::session_pool pb(verifier); pb.init();
	jar ja;
	{ cppcms::session_interface s(pa, ja); s.load(); s.set("role", "admin"); s.set("n", "42"); s.save(); }
	if (ja.cookies.empty()) { detail = "issuer set no cookie"; return false; }
	jar jb; jb.cookies = ja.cookies;
	cppcms::session_interface v(pb, jb);
	bool loaded = v.load();
	detail = "cookie " + ja.cookies.begin()->second.substr(0, 40) + "...";
	return loaded && v.is_set("role") && v.get("role") == "admin";
}
static void configured_siblings(rng &r)
{
	static char const *hm[] = { "md5", "sha1", "sha224", "sha256", "sha384", "sha512" };
	static char const *aes[] = { "aes", "aes128", "aes192", "aes256" };
	static const size_t aeslen[] = { 16, 16, 24, 32 };
	for (int shape = 0; shape < 4; shape++) {
		cppcms::json::value cfg;
		cfg["session"]["location"] = "client";
		cfg["session"]["cookies"]["prefix"] = "sib";
		std::vector<std::string> key_fields;
		int ai = r.below(4);
		std::string h = hm[r.below(6)];
		switch (shape) {
		case 0: cfg["session"]["client"]["encryptor"] = "hmac"; cfg["session"]["client"]["key"] = hexs(r.bytes(r.range(16, 40))); key_fields = { "key" }; break;
		case 1: cfg["session"]["client"]["encryptor"] = aes[ai]; cfg["session"]["client"]["key"] = hexs(r.bytes(aeslen[ai] + r.range(16, 40))); key_fields = { "key" }; break;
		case 2: cfg["session"]["client"]["hmac"] = h; cfg["session"]["client"]["hmac_key"] = hexs(r.bytes(r.range(16, 64))); key_fields = { "hmac_key" }; break;
		default: cfg["session"]["client"]["cbc"] = aes[ai]; cfg["session"]["client"]["cbc_key"] = hexs(r.bytes(aeslen[ai])); cfg["session"]["client"]["hmac"] = h; cfg["session"]["client"]["hmac_key"] = hexs(r.bytes(r.range(16, 64))); key_fields = { "cbc_key", "hmac_key" };
		}
		std::string rp = cfg.save();
		std::string detail;
		try {
			if (!issue_and_present(cfg, cfg, detail)) O().viol("cookie:own-cookie-refused-by-identical-configuration", detail, rp);
			O().count("configured_pairs_identical");
			for (auto const &kf : key_fields) {
				cppcms::json::value sib = cfg;
				std::string k = sib["session"]["client"][kf].str();
				size_t at = r.below((uint32_t)k.size());
				k[at] = k[at] == '0' ? '1' : (k[at] == 'f' ? 'e' : (char)(k[at] == '9' ? '8' : k[at] + 1 - (k[at] == 'a' ? 0 : 0)));
				if (!isxdigit((unsigned char)k[at])) k[at] = '0';
				sib["session"]["client"][kf] = k;
				if (issue_and_present(cfg, sib, detail)) O().viol("cookie:forged-data-accepted:configured-sibling-key", "a service whose configured " + kf + " differs in one hex digit accepted the cookie; " + detail, "{\"issuer\":" + rp + ",\"differs_in\":\"" + kf + "\"}");
				O().count("configured_pairs_differing_in_one_key");
				O().count("configured_sibling_" + kf);
			}
		} catch (std::exception const &e) { O().viol("cookie:valid-configuration-refused", std::string(e.what()) + " " + rp, rp); }
	}
}

int main(int argc, char **argv)
{
	args a(argc, argv);
	rng r(a.num("seed", 1));
	long long rounds = a.num("rounds", 20);
	bool exhaustive = a.has("exhaustive");
	cppcms::json::value cfg;
	cfg["session"]["location"] = "client";
	cfg["session"]["client"]["encryptor"] = "hmac";
	cfg["session"]["client"]["key"] = "00112233445566778899aabbccddeeff";
	cfg["session"]["cookies"]["prefix"] = "sc";
	g_pool.reset(new cppcms::session_pool(cfg));
	g_pool->init();
	refusals();
	for (int i = 0; i < 6; i++) configured_siblings(r);
	std::vector<std::unique_ptr<config> > cfgs = make_configs(r);
	int only = (int)a.num("config", -1);
	for (size_t i = 0; i < cfgs.size(); i++) { if (only >= 0 && (int)i != only % (int)cfgs.size()) continue; run_config(r, *cfgs[i], cfgs, rounds, exhaustive); O().count("configurations"); }
	finish(a);
	return O().viol_count ? 1 : 0;
}
