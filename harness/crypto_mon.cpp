// C16 monitor: message digests, HMAC, AES-CBC of cppcms::crypto against libgcrypt (independent
// implementation; cppcms is built on OpenSSL + bundled MD5/SHA-1 here) and embedded standard vectors.
#include "common/vh.h"
#include <cppcms/crypto.h>
#include <cppcms/util.h>
#include <gcrypt.h>
#include <memory>

using namespace vh;

struct alg { char const *name; int gc; unsigned dlen; unsigned block; };
static const alg ALGS[] = {
	{ "md5", GCRY_MD_MD5, 16, 64 }, { "sha1", GCRY_MD_SHA1, 20, 64 }, { "sha224", GCRY_MD_SHA224, 28, 64 },
	{ "sha256", GCRY_MD_SHA256, 32, 64 }, { "sha384", GCRY_MD_SHA384, 48, 128 }, { "sha512", GCRY_MD_SHA512, 64, 128 },
};

static std::string ref_digest(alg const &a, std::string const &m)
{
	std::string r(a.dlen, '\0');
	gcry_md_hash_buffer(a.gc, &r[0], m.data(), m.size());
	return r;
}
static std::string ref_hmac(alg const &a, std::string const &key, std::string const &m)
{
	gcry_md_hd_t h;
	if (gcry_md_open(&h, a.gc, GCRY_MD_FLAG_HMAC)) { fprintf(stderr, "gcry_md_open failed\n"); exit(3); }
	if (gcry_md_setkey(h, key.data(), key.size())) { fprintf(stderr, "gcry_md_setkey failed\n"); exit(3); }
	gcry_md_write(h, m.data(), m.size());
	std::string r((char const *)gcry_md_read(h, 0), a.dlen);
	gcry_md_close(h);
	return r;
}

// feeds m to obj in random pieces (also zero-length ones)
template <typename T> static void feed(T &obj, std::string const &m, rng &r, std::string &shape)
{
	size_t pos = 0;
	int style = r.below(5);
	shape = std::to_string(style) + ":";
	if (m.empty() && r.chance(1, 2)) { obj.append(m.data(), 0); shape += "0"; }
	while (pos < m.size()) {
		size_t n;
		switch (style) {
		case 0: n = m.size(); break;
		case 1: n = 1; break;
		case 2: n = r.below(130); break;
		case 3: n = 63 + r.below(3); break;
		default: n = r.chance(1, 4) ? 0 : r.below((uint32_t)(m.size() - pos) + 1);
		}
		if (n > m.size() - pos) n = m.size() - pos;
		obj.append(m.data() + pos, n);
		pos += n;
		if (shape.size() < 40) shape += std::to_string(n) + ",";
	}
}

static void check_digests(std::string const &m, rng &r, bool reuse_objects)
{
	static std::unique_ptr<cppcms::crypto::message_digest> keep[6];
	for (int i = 0; i < 6; i++) {
		alg const &a = ALGS[i];
		std::unique_ptr<cppcms::crypto::message_digest> fresh;
		cppcms::crypto::message_digest *d;
		if (reuse_objects) { if (!keep[i]) keep[i] = cppcms::crypto::message_digest::create_by_name(a.name); d = keep[i].get(); }
		else { fresh = cppcms::crypto::message_digest::create_by_name(r.chance(1, 2) ? a.name : (i == 0 ? "MD5" : i == 1 ? "SHA1" : i == 2 ? "SHA224" : i == 3 ? "SHA256" : i == 4 ? "SHA384" : "SHA512")); d = fresh.get(); }
		if (!d) { O().viol(std::string("digest:unavailable:") + a.name, "create_by_name returned null"); continue; }
		if (d->digest_size() != a.dlen || d->block_size() != a.block) O().viol(std::string("digest:sizes:") + a.name, "digest_size/block_size wrong");
		std::string shape;
		feed(*d, m, r, shape);
		std::string got(a.dlen + 8, '\xAA');
		d->readout(&got[0]);
		O().count("digest_checks");
		O().seen("shapes", mix(fnv(shape), i));
		std::string rp = "{\"alg\":\"" + std::string(a.name) + "\",\"msg\":\"" + hex(m.substr(0, 300)) + "\",\"len\":" + std::to_string(m.size()) + ",\"chunks\":\"" + shape + "\",\"reused\":" + (reuse_objects ? "true" : "false") + "}";
		if (got.substr(a.dlen) != std::string(8, '\xAA')) O().viol(std::string("digest:readout-overrun:") + a.name, rp, rp);
		if (got.substr(0, a.dlen) != ref_digest(a, m)) O().viol(std::string(reuse_objects ? "digest:wrong-after-reuse:" : "digest:wrong:") + a.name, rp, rp);
		if (i == 0) {
			if (cppcms::util::md5(m) != ref_digest(a, m)) O().viol("digest:util-md5", rp, rp);
			if (cppcms::util::md5hex(m) != hex(ref_digest(a, m))) O().viol("digest:util-md5hex", rp, rp);
		}
		// clone() gives a fresh object of the same algorithm
		if (r.chance(1, 8)) {
			std::unique_ptr<cppcms::crypto::message_digest> c(d->clone());
			c->append(m.data(), m.size());
			std::string g2(a.dlen, '\0'); c->readout(&g2[0]);
			if (g2 != ref_digest(a, m)) O().viol(std::string("digest:clone:") + a.name, rp, rp);
		}
	}
}

static void check_hmacs(std::string const &m, std::string const &key, rng &r, int reuse)
{
	for (int i = 0; i < 6; i++) {
		alg const &a = ALGS[i];
		cppcms::crypto::key k(key.data(), key.size());
		std::unique_ptr<cppcms::crypto::hmac> h;
		if (r.chance(1, 2)) h.reset(new cppcms::crypto::hmac(a.name, k));
		else h.reset(new cppcms::crypto::hmac(cppcms::crypto::message_digest::create_by_name(a.name), k));
		if (h->digest_size() != a.dlen) O().viol(std::string("hmac:digest_size:") + a.name, "");
		for (int round = 0; round <= reuse; round++) {
			std::string msg = round == 0 ? m : m.substr(0, m.size() / (round + 1)) + std::string(round, (char)round);
			std::string shape;
			feed(*h, msg, r, shape);
			std::string got(a.dlen + 8, '\xAA');
			h->readout(&got[0]);
			O().count("hmac_checks");
			std::string rp = "{\"alg\":\"" + std::string(a.name) + "\",\"key\":\"" + hex(key) + "\",\"msg\":\"" + hex(msg.substr(0, 300)) + "\",\"len\":" + std::to_string(msg.size()) + ",\"round\":" + std::to_string(round) + "}";
			if (got.substr(a.dlen) != std::string(8, '\xAA')) O().viol(std::string("hmac:readout-overrun:") + a.name, rp, rp);
			if (got.substr(0, a.dlen) != ref_hmac(a, key, msg)) O().viol(std::string(round ? "hmac:wrong-after-reuse:" : "hmac:wrong:") + a.name, rp, rp);
		}
	}
}

static std::string ref_cbc(int bits, std::string const &key, std::string const &iv, std::string const &in, bool enc)
{
	gcry_cipher_hd_t h;
	int algo = bits == 128 ? GCRY_CIPHER_AES128 : bits == 192 ? GCRY_CIPHER_AES192 : GCRY_CIPHER_AES256;
	if (gcry_cipher_open(&h, algo, GCRY_CIPHER_MODE_CBC, 0)) { fprintf(stderr, "gcry_cipher_open failed\n"); exit(3); }
	gcry_cipher_setkey(h, key.data(), key.size());
	gcry_cipher_setiv(h, iv.data(), iv.size());
	std::string out(in.size(), '\0');
	if (!in.empty()) {
		if (enc) gcry_cipher_encrypt(h, &out[0], out.size(), in.data(), in.size());
		else gcry_cipher_decrypt(h, &out[0], out.size(), in.data(), in.size());
	}
	gcry_cipher_close(h);
	return out;
}

static void check_cbc(rng &r, size_t blocks)
{
	static const int bits[] = { 128, 192, 256 };
	static char const *names[3][3] = { { "aes", "aes128", "AES-128" }, { "aes192", "aes-192", "AES192" }, { "aes256", "AES-256", "aes-256" } };
	for (int t = 0; t < 3; t++) {
		std::string key = r.bytes(bits[t] / 8), iv = r.bytes(16), plain = r.bytes(blocks * 16);
		std::string rp = "{\"bits\":" + std::to_string(bits[t]) + ",\"key\":\"" + hex(key) + "\",\"iv\":\"" + hex(iv) + "\",\"blocks\":" + std::to_string(blocks) + "}";
		std::unique_ptr<cppcms::crypto::cbc> c = r.chance(1, 2) ? cppcms::crypto::cbc::create((cppcms::crypto::cbc::cbc_type)t) : cppcms::crypto::cbc::create(names[t][r.below(3)]);
		if (!c) { O().viol("cbc:unavailable", rp, rp); continue; }
		if (c->block_size() != 16 || c->key_size() != (unsigned)bits[t] / 8) O().viol("cbc:sizes", rp, rp);
		c->set_key(cppcms::crypto::key(key.data(), key.size()));
		c->set_iv(iv.data(), iv.size());
		std::string ct(plain.size() + 16, '\xAA');
		// encrypt in one or several calls (chaining must carry over)
		size_t pos = 0;
		while (pos < plain.size()) {
			size_t n = r.chance(1, 2) ? plain.size() - pos : 16 * (1 + r.below((uint32_t)((plain.size() - pos) / 16)));
			c->encrypt(plain.data() + pos, &ct[pos], (unsigned)n);
			pos += n;
		}
		O().count("cbc_checks");
		if (ct.substr(plain.size()) != std::string(16, '\xAA')) O().viol("cbc:encrypt-overrun", rp, rp);
		ct.resize(plain.size());
		if (ct != ref_cbc(bits[t], key, iv, plain, true)) O().viol("cbc:encrypt-differs-from-standard", rp, rp);
		std::string back(plain.size(), '\0');
		pos = 0;
		while (pos < ct.size()) {
			size_t n = r.chance(1, 2) ? ct.size() - pos : 16 * (1 + r.below((uint32_t)((ct.size() - pos) / 16)));
			c->decrypt(ct.data() + pos, &back[pos], (unsigned)n);
			pos += n;
		}
		if (back != plain) O().viol("cbc:decrypt-encrypt-not-identity", rp, rp);
		// a second object (another "node") with the same key/iv understands it
		std::unique_ptr<cppcms::crypto::cbc> c2 = cppcms::crypto::cbc::create((cppcms::crypto::cbc::cbc_type)t);
		c2->set_key(cppcms::crypto::key(key.data(), key.size()));
		c2->set_iv(iv.data(), iv.size());
		std::string back2(plain.size(), '\0');
		if (!ct.empty()) c2->decrypt(ct.data(), &back2[0], (unsigned)ct.size());
		if (back2 != plain) O().viol("cbc:other-object-cannot-decrypt", rp, rp);
		if (ref_cbc(bits[t], key, iv, ct, false) != plain) O().viol("cbc:standard-cannot-decrypt", rp, rp);
		// nonce IV: everything after the first block survives (the first block is the random salt by design)
		if (blocks >= 2) {
			std::unique_ptr<cppcms::crypto::cbc> c3 = cppcms::crypto::cbc::create((cppcms::crypto::cbc::cbc_type)t);
			c3->set_key(cppcms::crypto::key(key.data(), key.size()));
			c3->set_nonce_iv();
			std::string ct3(plain.size(), '\0'), b3(plain.size(), '\0');
			c3->encrypt(plain.data(), &ct3[0], (unsigned)plain.size());
			c3->decrypt(ct3.data(), &b3[0], (unsigned)ct3.size());
			if (b3.substr(16) != plain.substr(16)) O().viol("cbc:nonce-iv-tail-not-identity", rp, rp);
			O().count("cbc_nonce_checks");
		}
		// giving an object that already worked a second key: either refused, or from then on it is an object with that key
		if (blocks >= 1) {
			std::string key2 = r.bytes(bits[t] / 8);
			bool refused = false;
			try { c->set_key(cppcms::crypto::key(key2.data(), key2.size())); } catch (std::exception const &) { refused = true; }
			O().count(refused ? "cbc_rekey_refused" : "cbc_rekey_accepted");
			if (!refused) {
				c->set_iv(iv.data(), iv.size());
				std::string ct5(plain.size(), '\0'), b5(plain.size(), '\0');
				c->encrypt(plain.data(), &ct5[0], (unsigned)plain.size());
				if (ct5 != ref_cbc(bits[t], key2, iv, plain, true)) O().viol("cbc:second-set_key-ignored-silently", "after set_key(k2) the object still encrypts under " + std::string(ct5 == ref_cbc(bits[t], key, iv, plain, true) ? "the first key" : "neither key"), rp);
				c->set_iv(iv.data(), iv.size());
				c->decrypt(ct5.data(), &b5[0], (unsigned)ct5.size());
				if (b5 != plain) O().viol("cbc:decrypt-encrypt-not-identity", "after a second set_key", rp);
			}
		}
		// wrong sizes are refused
		bool threw = false;
		try { std::unique_ptr<cppcms::crypto::cbc> c4 = cppcms::crypto::cbc::create((cppcms::crypto::cbc::cbc_type)t); std::string bad = r.bytes(bits[t] / 8 + 1); c4->set_key(cppcms::crypto::key(bad.data(), bad.size())); } catch (std::exception const &) { threw = true; }
		if (!threw) O().viol("cbc:accepts-wrong-key-size", rp, rp);
	}
}

static void check_hexkey(rng &r)
{
	std::string raw = r.bytes(r.below(40));
	std::string h = hex(raw);
	if (r.chance(1, 2)) for (auto &c : h) if (c >= 'a' && r.chance(1, 2)) c = (char)(c - 32);
	cppcms::crypto::key k(h);
	O().count("hexkey_checks");
	if (std::string(k.data(), k.size()) != raw) O().viol("key:hex-parse", h);
	// odd length / non-hex must be refused
	std::string bad = h;
	if (r.chance(1, 2) || bad.empty()) bad += 'a'; else bad[r.below((uint32_t)bad.size())] = "gG zx-\0:"[r.below(8)];
	bool threw = false;
	try { cppcms::crypto::key k2; k2.set_hex(bad.data(), bad.size()); } catch (std::exception const &) { threw = true; }
	if (!threw) O().viol("key:accepts-bad-hex", hex(bad));
}

struct vec { char const *alg; char const *key_hex; char const *msg; char const *want; };
static void mode_vectors()
{
	// RFC 1321, FIPS 180-4 examples, RFC 2202, RFC 4231 (hex keys; msg literal)
	static const vec D[] = {
		{ "md5", 0, "", "d41d8cd98f00b204e9800998ecf8427e" },
		{ "md5", 0, "abc", "900150983cd24fb0d6963f7d28e17f72" },
		{ "md5", 0, "12345678901234567890123456789012345678901234567890123456789012345678901234567890", "57edf4a22be3c955ac49da2e2107b67a" },
		{ "sha1", 0, "abc", "a9993e364706816aba3e25717850c26c9cd0d89d" },
		{ "sha1", 0, "abcdbcdecdefdefgefghfghighijhijkijkljklmklmnlmnomnopnopq", "84983e441c3bd26ebaae4aa1f95129e5e54670f1" },
		{ "sha224", 0, "abc", "23097d223405d8228642a477bda255b32aadbce4bda0b3f7e36c9da7" },
		{ "sha256", 0, "abc", "ba7816bf8f01cfea414140de5dae2223b00361a396177a9cb410ff61f20015ad" },
		{ "sha256", 0, "abcdbcdecdefdefgefghfghighijhijkijkljklmklmnlmnomnopnopq", "248d6a61d20638b8e5c026930c3e6039a33ce45964ff2167f6ecedd419db06c1" },
		{ "sha384", 0, "abc", "cb00753f45a35e8bb5a03d699ac65007272c32ab0eded1631a8b605a43ff5bed8086072ba1e7cc2358baeca134c825a7" },
		{ "sha512", 0, "abc", "ddaf35a193617abacc417349ae20413112e6fa4e89a97ea20a9eeee64b55d39a2192992a274fc1a836ba3c23a3feebbd454d4423643ce80e2a9ac94fa54ca49f" },
		{ "md5", "0b0b0b0b0b0b0b0b0b0b0b0b0b0b0b0b", "Hi There", "9294727a3638bb1c13f48ef8158bfc9d" },
		{ "sha1", "0b0b0b0b0b0b0b0b0b0b0b0b0b0b0b0b0b0b0b0b", "Hi There", "b617318655057264e28bc0b6fb378c8ef146be00" },
		{ "sha1", "4a656665", "what do ya want for nothing?", "effcdf6ae5eb2fa2d27416d5f184df9c259a7c79" },
		{ "sha256", "0b0b0b0b0b0b0b0b0b0b0b0b0b0b0b0b0b0b0b0b", "Hi There", "b0344c61d8db38535ca8afceaf0bf12b881dc200c9833da726e9376c2e32cff7" },
		{ "sha256", "4a656665", "what do ya want for nothing?", "5bdcc146bf60754e6a042426089575c75a003f089d2739839dec58b964ec3843" },
		{ "sha512", "4a656665", "what do ya want for nothing?", "164b7a7bfcf819e2e395fbe73b56e0a387bd64222e831fd610270cd7ea2505549758bf75c05a994a6d034f65f8f0e6fdcaeab1a34d4a6b4b636e070a38bce737" },
		// RFC 4231 test 6: key longer than the block
		{ "sha256", "aaaaaaaaaaaaaaaaaaaaaaaaaaaaaaaaaaaaaaaaaaaaaaaaaaaaaaaaaaaaaaaaaaaaaaaaaaaaaaaaaaaaaaaaaaaaaaaaaaaaaaaaaaaaaaaaaaaaaaaaaaaaaaaaaaaaaaaaaaaaaaaaaaaaaaaaaaaaaaaaaaaaaaaaaaaaaaaaaaaaaaaaaaaaaaaaaaaaaaaaaaaaaaaaaaaaaaaaaaaaaaaaaaaaaaaaaaaaaaaaaaaaaaaaaaaaaaaaaaaaaa",
		  "Test Using Larger Than Block-Size Key - Hash Key First", "60e431591ee0b67f0d8a26aacbf5b77f8e0bc6213728c5140546040f0ee37f54" },
	};
	for (auto const &v : D) {
		std::string got;
		if (v.key_hex) { cppcms::crypto::hmac h(v.alg, cppcms::crypto::key(std::string(v.key_hex))); h.append(v.msg, strlen(v.msg)); got.resize(h.digest_size()); h.readout(&got[0]); }
		else { auto d = cppcms::crypto::message_digest::create_by_name(v.alg); d->append(v.msg, strlen(v.msg)); got.resize(d->digest_size()); d->readout(&got[0]); }
		O().count("standard_vectors");
		if (hex(got) != v.want) O().viol(std::string(v.key_hex ? "hmac" : "digest") + ":standard-vector:" + v.alg, std::string(v.msg) + " got " + hex(got));
		// the libgcrypt reference must agree with the standards too (guards the oracle)
		for (auto const &a : ALGS) if (!strcmp(a.name, v.alg)) {
			std::string rf = v.key_hex ? ref_hmac(a, unhex(v.key_hex), v.msg) : ref_digest(a, v.msg);
			if (hex(rf) != v.want) O().viol("harness:reference-disagrees-with-standard", v.alg);
		}
	}
	// NIST SP 800-38A F.2.1 / F.2.3 / F.2.5 (CBC-AES128/192/256 encrypt, 4 blocks)
	struct cv { int t; char const *key; char const *want; };
	static const cv C[] = {
		{ 0, "2b7e151628aed2a6abf7158809cf4f3c", "7649abac8119b246cee98e9b12e9197d5086cb9b507219ee95db113a917678b273bed6b8e3c1743b7116e69e222295163ff1caa1681fac09120eca307586e1a7" },
		{ 1, "8e73b0f7da0e6452c810f32b809079e562f8ead2522c6b7b", "4f021db243bc633d7178183a9fa071e8b4d9ada9ad7dedf4e5e738763f69145a571b242012fb7ae07fa9baac3df102e008b0e27988598881d920a9e64f5615cd" },
		{ 2, "603deb1015ca71be2b73aef0857d77811f352c073b6108d72d9810a30914dff4", "f58c4c04d6e5f1ba779eabfb5f7bfbd69cfc4e967edb808d679f777bc6702c7d39f23369a9d9bacfa530e26304231461b2eb05e2c39be9fcda6c19078c6a9d1b" },
	};
	std::string iv = unhex("000102030405060708090a0b0c0d0e0f");
	std::string pt = unhex("6bc1bee22e409f96e93d7e117393172aae2d8a571e03ac9c9eb76fac45af8e5130c81c46a35ce411e5fbc1191a0a52eff69f2445df4f9b17ad2b417be66c3710");
	for (auto const &c : C) {
		auto e = cppcms::crypto::cbc::create((cppcms::crypto::cbc::cbc_type)c.t);
		e->set_key(cppcms::crypto::key(std::string(c.key)));
		e->set_iv(iv.data(), 16);
		std::string ct(pt.size(), '\0');
		e->encrypt(pt.data(), &ct[0], (unsigned)pt.size());
		O().count("standard_vectors");
		if (hex(ct) != c.want) O().viol("cbc:standard-vector", c.key);
	}
	O().sample("{\"mode\":\"vectors\",\"sources\":\"RFC1321 FIPS180-4 RFC2202 RFC4231 SP800-38A\"}");
}

// message lengths around every block boundary
static void mode_grid(args const &a)
{
	rng r(a.num("seed", 1));
	int part = (int)a.num("part", 0), parts = (int)a.num("parts", 1);
	std::vector<size_t> lens;
	for (size_t n = 0; n <= 4300; n++) lens.push_back(n);
	size_t idx = 0;
	for (size_t n : lens) {
		if ((int)(idx++ % parts) != part) continue;
		std::string m = r.bytes(n);
		check_digests(m, r, false);
		check_digests(m, r, true);
		size_t klens[] = { 0, 1, 16, 63, 64, 65, 127, 128, 129, 200, 384, (size_t)r.below(400) };
		check_hmacs(m, r.bytes(klens[r.below(12)]), r, r.below(3));
		O().count("cases");
		O().seen("lengths", n);
	}
	O().sample("{\"mode\":\"grid\",\"lengths\":" + std::to_string(lens.size()) + ",\"max\":4300}");
}

static void mode_random(args const &a)
{
	rng r(a.num("seed", 1));
	long long cases = a.num("cases", 500);
	for (long long i = 0; i < cases; i++) {
		size_t n = r.chance(1, 10) ? r.below(200000) : r.below(5000);
		std::string m = r.bytes(n);
		bool reuse = r.chance(1, 2);
		check_digests(m, r, reuse);
		size_t kl;
		switch (r.below(4)) { case 0: kl = r.below(64); break; case 1: kl = 62 + r.below(5); break; case 2: kl = 126 + r.below(5); break; default: kl = r.below(400); }
		std::string key = r.bytes(kl);
		check_hmacs(m.substr(0, r.below(3000)), key, r, r.below(4));
		check_cbc(r, r.chance(1, 10) ? r.below(2000) : r.below(20));
		check_hexkey(r);
		O().count("cases");
		O().seen("inputs", mix(fnv(m), fnv(key)));
		if (i < 2) O().sample("{\"mode\":\"random\",\"msg_len\":" + std::to_string(n) + ",\"key_len\":" + std::to_string(kl) + ",\"msg_prefix\":\"" + hex(m.substr(0, 16)) + "\"}");
	}
}

// very long messages: the length fields of the hash functions (bit counts beyond 2^32, byte counts beyond 2^31 in one append)
#include <sys/mman.h>
static void mode_big(args const &a)
{
	bool huge = a.has("huge");
	// (length, largest single append): 512 MiB and one byte more - where a 32-bit bit count wraps; with --huge also 2 GiB in one append
	std::vector<std::pair<size_t, size_t> > cases;
	cases.push_back(std::make_pair(((size_t)512 << 20) - 1, (size_t)64 << 20));
	cases.push_back(std::make_pair(((size_t)512 << 20) + 1, (size_t)64 << 20));
	if (huge) { cases.push_back(std::make_pair(((size_t)2 << 30) + 5, ((size_t)2 << 30) + 5)); cases.push_back(std::make_pair(((size_t)4 << 30) + 3, (size_t)1 << 30)); }
	for (auto const &cs : cases) {
		size_t n = cs.first;
		char *buf = (char *)mmap(0, n, PROT_READ | PROT_WRITE, MAP_PRIVATE | MAP_ANONYMOUS | MAP_NORESERVE, -1, 0);
		if (buf == MAP_FAILED) { O().count("big_cases_skipped_no_memory"); continue; }
		for (size_t i = 0; i < n; i += 4096) buf[i] = (char)(i >> 12);
		buf[n - 1] = 'z';
		for (alg const &al : ALGS) {
			if (!huge && al.gc != GCRY_MD_SHA1 && al.gc != GCRY_MD_MD5) continue;
			std::unique_ptr<cppcms::crypto::message_digest> d = cppcms::crypto::message_digest::create_by_name(al.name);
			if (!d.get()) continue;
			for (size_t off = 0; off < n; off += cs.second) d->append(buf + off, std::min(cs.second, n - off));
			std::string got(al.dlen, '\0'); d->readout(&got[0]);
			std::string want(al.dlen, '\0');
			gcry_md_hd_t h; if (gcry_md_open(&h, al.gc, 0)) { fprintf(stderr, "gcry_md_open failed\n"); exit(3); }
			gcry_md_write(h, buf, n); want.assign((char const *)gcry_md_read(h, 0), al.dlen); gcry_md_close(h);
			O().count("big_digests"); O().count("checks");
			std::string rp = "{\"alg\":\"" + std::string(al.name) + "\",\"len\":" + std::to_string(n) + ",\"append_size\":" + std::to_string(cs.second) + "}";
			if (got != want) O().viol(std::string("digest:wrong:") + al.name + ":message-of-512MiB-or-more", "length " + std::to_string(n) + " appended in pieces of " + std::to_string(cs.second) + ": " + hex(got) + " instead of " + hex(want), rp);
		}
		// the convenience functions util::md5 / util::md5hex hash a whole string in one go
		if (n < ((size_t)3 << 30)) {
			std::string msg(buf, n);
			std::string got = cppcms::util::md5(msg), want(16, '\0');
			gcry_md_hd_t h; if (gcry_md_open(&h, GCRY_MD_MD5, 0)) { fprintf(stderr, "gcry_md_open failed\n"); exit(3); }
			gcry_md_write(h, buf, n); want.assign((char const *)gcry_md_read(h, 0), 16); gcry_md_close(h);
			O().count("big_util_md5"); O().count("checks");
			if (got != want || cppcms::util::md5hex(msg) != hex(want)) O().viol("digest:wrong:util-md5:message-of-512MiB-or-more", "length " + std::to_string(n) + ": " + hex(got) + " instead of " + hex(want), "{\"alg\":\"util::md5\",\"len\":" + std::to_string(n) + "}");
		}
		munmap(buf, n);
	}
}

int main(int argc, char **argv)
{
	args a(argc, argv);
	if (!gcry_check_version(0)) { fprintf(stderr, "libgcrypt init failed\n"); return 3; }
	gcry_control(GCRYCTL_DISABLE_SECMEM, 0);
	gcry_control(GCRYCTL_INITIALIZATION_FINISHED, 0);
	std::string mode = a.str("mode", "random");
	if (mode == "vectors") mode_vectors();
	else if (mode == "grid") mode_grid(a);
	else if (mode == "random") mode_random(a);
	else if (mode == "big") mode_big(a);
	finish(a);
	return O().viol_count ? 1 : 0;
}
