// C18 monitor (concurrent part): "load and garbage collection remove unreadable or expired files and never remove a
// live session" while other threads / processes save. Each owner thread owns one session id: it saves an already
// expired value, then a live one, then loads it - nobody else ever saves that id, so the load must return exactly the
// live value. Disturbers load the same ids (a load of an expired file removes it) and run the garbage collector.
// A link-time unlink() shim delays removals a little, which widens any gap between "this file is dead" and its removal
// (under the lock the real code holds, the delay only makes the lock be held longer).
#include "common/vh.h"
#include "common/clock_shim.h"
#include "session_posix_file_storage.h"
#include <thread>
#include <atomic>
#include <unistd.h>
#include <signal.h>
#include <sys/syscall.h>
#include <sys/stat.h>
#include <sys/wait.h>
#include <sys/mman.h>
#include <dirent.h>

using namespace vh;

static std::atomic<int> g_delay_permille(0);
static std::atomic<long> g_unlinks(0), g_unlinks_delayed(0);
static thread_local uint64_t t_rng = 0x9E3779B97F4A7C15ull;
extern "C" int unlink(const char *path)
{
	g_unlinks++;
	int pm = g_delay_permille.load(std::memory_order_relaxed);
	if (pm) {
		t_rng ^= t_rng << 13; t_rng ^= t_rng >> 7; t_rng ^= t_rng << 17;
		if ((int)(t_rng % 1000) < pm) { g_unlinks_delayed++; usleep(20 + (t_rng >> 24) % 300); }
	}
	return (int)syscall(SYS_unlink, path);
}

static std::atomic<int> g_write_delay_permille(0);
extern "C" ssize_t write(int fd, const void *buf, size_t n)
{
	int pm = g_write_delay_permille.load(std::memory_order_relaxed);
	if (pm && fd > 2) {
		t_rng ^= t_rng << 13; t_rng ^= t_rng >> 7; t_rng ^= t_rng << 17;
		if ((int)(t_rng % 1000) < pm) usleep(20 + (t_rng >> 24) % 300);
	}
	return (ssize_t)syscall(SYS_write, fd, buf, n);
}

// the first four hex digits select the lock slot of the storage: different ids must be able to use different slots
static std::string sid_of(int i) { char b[40]; snprintf(b, sizeof b, "%04x%028x", (unsigned)(i * 0x1235 + 7) & 0xffff, 0xabc000 + i); return b; }

struct shared_counters { std::atomic<long> rounds, lost, wrong, disturber_loads, gc_runs, disturber_hits, threw; char what[200]; };

static void owner_loop(cppcms::sessions::session_storage &st, int me, long rounds, long now, shared_counters *sc, std::string *witness)
{
	std::string sid = sid_of(me);
	for (long n = 0; n < rounds; n++) {
		std::string dead = "dead-" + std::to_string(me) + "-" + std::to_string(n);
		std::string live = "live-" + std::to_string(me) + "-" + std::to_string(n) + std::string((size_t)(n % 7) * 100, 'x');
		time_t t = 0; std::string out;
		bool ok = false;
		try {
			st.save(sid, (time_t)(now - 10), dead);
			if (n % 3 == 0) usleep(n % 50);
			st.save(sid, (time_t)(now + 1000 + n % 5), live);
			ok = st.load(sid, t, out);
		}
		catch (std::exception const &e) {
			if (sc->threw++ == 0) snprintf(sc->what, sizeof sc->what, "round %ld owner %d: %s", n, me, e.what());
			sc->rounds++;
			continue;
		}
		sc->rounds++;
		if (!ok) { if (sc->lost++ == 0 && witness) *witness = "round " + std::to_string(n) + " owner " + std::to_string(me) + ": save(live) returned, then load() reported no session"; }
		else if (out != live || (long)t != now + 1000 + n % 5) { if (sc->wrong++ == 0 && witness) *witness = "round " + std::to_string(n) + ": load returned " + out.substr(0, 30) + " deadline " + std::to_string((long)t); }
	}
}

static void run_threads(rng &r, std::string const &dir, int mode, long rounds)
{
	// mode 0: plain mutexes, 1: process-shared mutexes, 2: fcntl locks
	cppcms::sessions::session_file_storage_factory f(dir, r.range(1, 5), mode == 1 ? 2 : 1, mode == 2);
	booster::shared_ptr<cppcms::sessions::session_storage> st = f.get();
	long now = vclock::now();
	int owners = r.range(1, 3), loaders = r.range(0, 2);
	shared_counters sc; sc.rounds = sc.lost = sc.wrong = sc.disturber_loads = sc.gc_runs = sc.disturber_hits = sc.threw = 0; sc.what[0] = 0;
	std::atomic<bool> stop(false);
	std::vector<std::thread> th;
	std::string witness;
	std::vector<std::string> wit(owners);
	for (int i = 0; i < owners; i++) th.push_back(std::thread([&, i]() { t_rng += i * 77; owner_loop(*st, i, rounds, now, &sc, &wit[i]); }));
	std::vector<std::thread> dist;
	dist.push_back(std::thread([&]() { t_rng += 1001; while (!stop.load()) { f.gc_job(); sc.gc_runs++; } }));
	for (int l = 0; l < loaders; l++) dist.push_back(std::thread([&, l]() { t_rng += 2000 + l; uint64_t x = 88172645463325252ull + l; while (!stop.load()) { x ^= x << 13; x ^= x >> 7; x ^= x << 17; time_t t; std::string o; if (st->load(sid_of((int)(x % owners)), t, o)) sc.disturber_hits++; sc.disturber_loads++; } }));
	for (auto &t : th) t.join();
	stop = true;
	for (auto &t : dist) t.join();
	for (int i = 0; i < owners; i++) st->remove(sid_of(i));
	static char const *mn[] = { "mutex", "pshared-mutex", "fcntl" };
	std::string rp = "{\"mode\":\"" + std::string(mn[mode]) + "\",\"processes\":1,\"owners\":" + std::to_string(owners) + ",\"loaders\":" + std::to_string(loaders) + "}";
	for (auto const &w : wit) if (!w.empty() && witness.empty()) witness = w;
	if (sc.lost.load()) O().viol("fstore:live-session-removed-by-concurrent-load-or-gc", std::string(mn[mode]) + " locks, threads: " + std::to_string(sc.lost.load()) + " of " + std::to_string(sc.rounds.load()) + " rounds; " + witness, rp);
	if (sc.wrong.load()) O().viol("fstore:load-returned-other-than-the-last-save", std::string(mn[mode]) + " locks, threads; " + witness, rp);
	if (sc.threw.load()) O().viol("fstore:save-or-load-threw-under-concurrency", std::string(mn[mode]) + " locks, threads: " + sc.what, rp);
	O().count("conc_rounds", sc.rounds.load()); O().count("conc_gc_runs", sc.gc_runs.load()); O().count("conc_disturber_loads", sc.disturber_loads.load()); O().count("conc_disturber_hits", sc.disturber_hits.load());
	O().count(std::string("conc_scenarios_threads_") + mn[mode]);
	O().seen("shapes", mix(mix(mode, owners), loaders));
}

// the same with disturbers in other processes (forked after the storage exists, so process-shared mutexes are shared)
static void run_processes(rng &r, std::string const &dir, int mode, long rounds)
{
	cppcms::sessions::session_file_storage_factory f(dir, r.range(1, 5), 3, mode == 2);
	booster::shared_ptr<cppcms::sessions::session_storage> st = f.get();
	long now = vclock::now();
	shared_counters *sc = (shared_counters *)mmap(0, sizeof(shared_counters), PROT_READ | PROT_WRITE, MAP_ANONYMOUS | MAP_SHARED, -1, 0);
	new (sc) shared_counters(); sc->rounds = sc->lost = sc->wrong = sc->disturber_loads = sc->gc_runs = sc->disturber_hits = sc->threw = 0; sc->what[0] = 0;
	fflush(stdout);
	pid_t kids[2];
	for (int k = 0; k < 2; k++) {
		kids[k] = fork();
		if (kids[k] == 0) {
			t_rng += 5000 + k;
			for (;;) {
				if (k == 0) { f.gc_job(); sc->gc_runs++; }
				else { time_t t; std::string o; if (st->load(sid_of(0), t, o)) sc->disturber_hits++; sc->disturber_loads++; }
			}
		}
	}
	std::string witness;
	owner_loop(*st, 0, rounds, now, sc, &witness);
	for (int k = 0; k < 2; k++) { kill(kids[k], SIGKILL); int s; waitpid(kids[k], &s, 0); }
	// a killed child may have died holding a lock: use a fresh storage object to clean up
	{ cppcms::sessions::session_file_storage_factory f2(dir, 1, 1, false); (void)f2; syscall(SYS_unlink, (dir + "/" + sid_of(0)).c_str()); }
	static char const *mn[] = { "mutex", "pshared-mutex", "fcntl" };
	std::string rp = "{\"mode\":\"" + std::string(mn[mode]) + "\",\"processes\":3}";
	if (sc->lost.load()) O().viol("fstore:live-session-removed-by-concurrent-load-or-gc", std::string(mn[mode]) + " locks, 3 processes: " + std::to_string(sc->lost.load()) + " of " + std::to_string(sc->rounds.load()) + " rounds; " + witness, rp);
	if (sc->wrong.load()) O().viol("fstore:load-returned-other-than-the-last-save", std::string(mn[mode]) + " locks, 3 processes; " + witness, rp);
	if (sc->threw.load()) O().viol("fstore:save-or-load-threw-under-concurrency", std::string(mn[mode]) + " locks, 3 processes: " + sc->what, rp);
	O().count("conc_rounds", sc->rounds.load()); O().count("conc_gc_runs", sc->gc_runs.load()); O().count("conc_disturber_loads", sc->disturber_loads.load()); O().count("conc_disturber_hits", sc->disturber_hits.load());
	O().count(std::string("conc_scenarios_processes_") + mn[mode]);
	O().seen("shapes", mix(100 + mode, 3));
	munmap(sc, sizeof(shared_counters));
}

// pre-forked workers as cppcms::service runs them: the storage is created once, then W worker processes are forked, each with T
// owner threads (own session ids) and a loader thread that loads the ids of everybody. With 'leaver' one more worker does nothing
// but leave in an orderly way (its storage object is destroyed) while the others work.
static void run_workers(rng &r, std::string const &dir, int mode, long rounds, bool leaver)
{
	int W = r.range(2, 3), T = r.range(2, 3);
	cppcms::sessions::session_file_storage_factory *f = new cppcms::sessions::session_file_storage_factory(dir, r.range(1, 4) * W, W, mode == 2);
	long now = vclock::now();
	shared_counters *sc = (shared_counters *)mmap(0, sizeof(shared_counters), PROT_READ | PROT_WRITE, MAP_ANONYMOUS | MAP_SHARED, -1, 0);
	new (sc) shared_counters(); sc->rounds = sc->lost = sc->wrong = sc->disturber_loads = sc->gc_runs = sc->disturber_hits = sc->threw = 0; sc->what[0] = 0;
	char *wit = (char *)mmap(0, 4096, PROT_READ | PROT_WRITE, MAP_ANONYMOUS | MAP_SHARED, -1, 0);
	fflush(stdout);
	std::vector<pid_t> kids;
	if (leaver) {
		pid_t p = fork();
		if (p == 0) { usleep(2000); delete f; _exit(0); }      // an orderly exit of one worker
		kids.push_back(p);
	}
	for (int w = 0; w < W; w++) {
		pid_t p = fork();
		if (p == 0) {
			booster::shared_ptr<cppcms::sessions::session_storage> st = f->get();
			if (leaver) usleep(20000);        // work after the other one left
			std::atomic<bool> stop(false);
			std::vector<std::thread> th;
			std::vector<std::string> wits(T);
			for (int t = 0; t < T; t++) th.push_back(std::thread([&, t]() { t_rng += 31 * (w * 8 + t); owner_loop(*st, w * T + t, rounds, now, sc, &wits[t]); }));
			std::thread loader([&]() { t_rng += 999 + w; uint64_t x = 88172645463325252ull + w; while (!stop.load()) { x ^= x << 13; x ^= x >> 7; x ^= x << 17; time_t t; std::string o; try { if (st->load(sid_of((int)(x % (W * T))), t, o)) sc->disturber_hits++; } catch (std::exception const &) {} sc->disturber_loads++; } });
			for (auto &t : th) t.join();
			stop = true; loader.join();
			for (auto const &x : wits) if (!x.empty() && !wit[0]) snprintf(wit, 4096, "%s", x.c_str());
			_exit(0);
		}
		kids.push_back(p);
	}
	int crashed = 0;
	for (pid_t k : kids) { int st = 0; waitpid(k, &st, 0); if (!WIFEXITED(st) || WEXITSTATUS(st) != 0) crashed++; }
	for (int i = 0; i < W * T; i++) syscall(SYS_unlink, (dir + "/" + sid_of(i)).c_str());
	static char const *mn[] = { "mutex", "pshared-mutex", "fcntl" };
	std::string shape = std::string(mn[mode]) + " locks, " + std::to_string(W) + " worker processes x " + std::to_string(T) + " owner threads" + (leaver ? ", one more worker left in an orderly way" : "");
	std::string rp = "{\"mode\":\"" + std::string(mn[mode]) + "\",\"workers\":" + std::to_string(W) + ",\"threads\":" + std::to_string(T) + ",\"leaver\":" + (leaver ? "true" : "false") + "}";
	std::string sfx = leaver ? ":after-a-worker-left" : ":workers";
	if (sc->lost.load()) O().viol("fstore:live-session-reported-absent" + sfx, shape + ": " + std::to_string(sc->lost.load()) + " of " + std::to_string(sc->rounds.load()) + " rounds; " + wit, rp);
	if (sc->wrong.load()) O().viol("fstore:load-returned-other-than-the-last-save" + sfx, shape + "; " + wit, rp);
	if (sc->threw.load()) O().viol("fstore:save-or-load-threw-under-concurrency" + sfx, shape + ": " + sc->what, rp);
	if (crashed) O().viol("fstore:worker-process-died" + sfx, shape, rp);
	O().count("conc_rounds", sc->rounds.load()); O().count("conc_disturber_loads", sc->disturber_loads.load()); O().count("conc_disturber_hits", sc->disturber_hits.load());
	O().count(std::string(leaver ? "conc_scenarios_worker_left_" : "conc_scenarios_workers_") + mn[mode]);
	O().seen("shapes", mix(mix(200 + mode, W), mix(T, leaver)));
	munmap(sc, sizeof(shared_counters)); munmap(wit, 4096);
	delete f;
}

// "If the process ... stops at any point while a session file is being written, a later load returns a complete value or reports
// that there is no session": a worker process is killed while it saves; afterwards another worker must still be able to use the
// storage (the dead one may have held the lock of the session). The prober gets a very generous time for a microsecond operation.
static void run_killed_saver(rng &r, std::string const &dir, int mode, int kills)
{
	cppcms::sessions::session_file_storage_factory *f = new cppcms::sessions::session_file_storage_factory(dir, 1, 2, mode == 2);    // one lock slot: every id shares it
	long now = vclock::now();
	static char const *mn[] = { "mutex", "pshared-mutex", "fcntl" };
	std::string rp = "{\"mode\":\"" + std::string(mn[mode]) + "\",\"scenario\":\"killed-saver\"}";
	fflush(stdout);
	for (int k = 0; k < kills; k++) {
		pid_t saver = fork();
		if (saver == 0) {
			g_write_delay_permille = 900;
			booster::shared_ptr<cppcms::sessions::session_storage> st = f->get();
			for (long n = 0;; n++) st->save(sid_of(50), (time_t)(now + 1000), "value-" + std::to_string(n) + std::string(3000, 'v'));
		}
		usleep(3000 + r.below(20000));
		kill(saver, SIGKILL); int s; waitpid(saver, &s, 0);
		O().count("savers_killed_while_saving");
		pid_t prober = fork();
		if (prober == 0) {
			booster::shared_ptr<cppcms::sessions::session_storage> st = f->get();
			time_t t; std::string o;
			bool had = st->load(sid_of(50), t, o);
			bool fine = !had || (o.size() > 6 && o.compare(0, 6, "value-") == 0 && o.size() - o.find('v', 6) == 3000 && (long)t == now + 1000);
			st->save(sid_of(51), (time_t)(now + 1000), "other");
			bool ok2 = st->load(sid_of(51), t, o) && o == "other";
			_exit(fine && ok2 ? 0 : 3);
		}
		int st = 0; bool done = false;
		for (int w = 0; w < 6000 && !done; w++) { if (waitpid(prober, &st, WNOHANG) == prober) done = true; else usleep(10000); }     // 60 s
		if (!done) {
			kill(prober, SIGKILL); waitpid(prober, &st, 0);
			O().viol("fstore:storage-blocked-after-worker-died-while-saving", std::string(mn[mode]) + " locks: a worker process was killed inside save(); 60 s later load() in another worker has not returned", rp);
			break;      // the lock stays taken: nothing more to learn from this storage object
		}
		if (!WIFEXITED(st) || WEXITSTATUS(st) != 0) O().viol("fstore:wrong-result-after-worker-died-while-saving", std::string(mn[mode]) + " locks: status " + std::to_string(st), rp);
		O().count("probes_after_killed_saver");
	}
	syscall(SYS_unlink, (dir + "/" + sid_of(50)).c_str()); syscall(SYS_unlink, (dir + "/" + sid_of(51)).c_str());
	O().count(std::string("conc_scenarios_killed_saver_") + mn[mode]);
	O().seen("shapes", mix(300 + mode, kills));
	// not deleted when a lock may be held for ever: the destructor does not need it, but keep the object out of the way all the same
	delete f;
}

int main(int argc, char **argv)
{
	args a(argc, argv);
	std::string dir = a.str("dir", "");
	if (dir.empty()) { char t[] = "/tmp/verif-fstorec-XXXXXX"; dir = mkdtemp(t); } else mkdir(dir.c_str(), 0700);
	rng r(a.num("seed", 1));
	long rounds = (long)a.num("rounds", 3000);
	long scen = (long)a.num("scenarios", 6);
	bool procs = a.has("processes");
	g_delay_permille = (int)a.num("delay", 300);
	vclock::now() = 1700000000L;
	for (long i = 0; i < scen && O().viol_count < 4; i++) {
		int mode = (int)(i % 3);
		if (procs && mode != 0) {      // plain mutexes cannot exclude other processes
			switch ((i / 3) % 4) {
			case 0: run_processes(r, dir, mode, rounds); break;
			case 1: run_workers(r, dir, mode, std::max(50L, rounds / 4), false); break;
			case 2: run_workers(r, dir, mode, std::max(50L, rounds / 4), true); break;
			default: run_killed_saver(r, dir, mode, 6);
			}
		}
		else run_threads(r, dir, mode, rounds);
	}
	O().count("unlinks", g_unlinks.load()); O().count("unlinks_delayed", g_unlinks_delayed.load());
	rmdir(dir.c_str());
	finish(a);
	return O().viol_count ? 1 : 0;
}
