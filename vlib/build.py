"""Flavor builder: static libcppcms/libbooster + harness executables, always
(incrementally) rebuilt from /repo's current working tree."""
import fcntl
import os
import subprocess
import sys
import time

VERIF = os.path.dirname(os.path.dirname(os.path.abspath(__file__)))
REPO = os.environ.get("VERIF_REPO", "/repo")
BUILD = os.environ.get("VERIF_BUILD") or os.path.join(VERIF, "build")     # VERIF_BUILD: bin/seed_sweep builds a scratch worktree elsewhere
GUARD = "CPPCMS_VERIF"

COMMON_WARN = "-w"
FLAVORS = {
    "asan": dict(cxx="g++", cc="gcc",
                 flags="-O1 -g -fno-omit-frame-pointer -fsanitize=address,undefined,float-cast-overflow -fno-sanitize=nonnull-attribute "
                       "-fno-sanitize-recover=all -D%s" % GUARD),
    "tsan": dict(cxx="g++", cc="gcc",
                 flags="-O1 -g -fno-omit-frame-pointer -fsanitize=thread -D%s" % GUARD),
    "plain": dict(cxx="g++", cc="gcc", flags="-O2 -g -D%s" % GUARD),
    # not a check flavor: `VERIF_COVERAGE=1 ./check ...` (see bin/coverage) maps asan/tsan/plain to it to find what the workloads never reach
    "cov": dict(cxx="g++", cc="gcc", flags="-O0 -g --coverage -fprofile-update=atomic -DVERIF_COVERAGE_BUILD -D%s" % GUARD),
    "fuzz": dict(cxx="clang++-14", cc="clang-14",
                 flags="-O1 -g -fno-omit-frame-pointer -fsanitize=fuzzer-no-link,address,undefined,float-cast-overflow -fno-sanitize=nonnull-attribute "
                       "-fno-sanitize-recover=all -fno-sanitize=object-size -D%s" % GUARD,
                 link_extra="-fsanitize=fuzzer"),
}

LIBS = "-lpcre -licuuc -licui18n -licudata -lcrypto -lz -ldl -lpthread"

# harness name -> (source file, extra link flags, flavors it is built for)
HARNESSES = {}


def register(name, src=None, extra="", flavors=("asan",), defs=""):
    HARNESSES[name] = dict(src=src or (name + ".cpp"), extra=extra, flavors=flavors, defs=defs)


register("utf_mon", flavors=("plain", "asan"))
register("codec_mon", flavors=("asan", "plain"))
register("crypto_mon", extra="-lgcrypt", flavors=("asan", "plain"))
register("json_mon", flavors=("asan", "plain"))
register("json_fuzz", src="json_mon.cpp", flavors=("fuzz",), defs="-DVERIF_FUZZ")
register("ser_mon", flavors=("asan", "plain"))
register("ser_fuzz", src="ser_mon.cpp", flavors=("fuzz",), defs="-DVERIF_FUZZ")
register("xss_mon", flavors=("asan",))
register("xss_fuzz", src="xss_mon.cpp", flavors=("fuzz",), defs="-DVERIF_FUZZ")
register("mp_mon", flavors=("asan",))
register("mp_fuzz", src="mp_mon.cpp", flavors=("fuzz",), defs="-DVERIF_FUZZ")
register("cache_mon", flavors=("asan",))
register("cache_conc", flavors=("tsan", "asan", "plain"))
register("netcache_mon", flavors=("asan", "tsan"))
register("sess_mon", flavors=("asan", "plain"))
register("sess_hist", flavors=("asan",))
register("fstore_mon", flavors=("asan", "plain"))
register("fstore_conc", flavors=("asan", "tsan"))
register("aio_mon", flavors=("tsan", "asan", "plain"))
register("route_mon", flavors=("asan",))
register("vsrv", flavors=("asan",))
register("hdr_mon", flavors=("asan",))
register("hdr_fuzz", src="hdr_mon.cpp", flavors=("fuzz",), defs="-DVERIF_FUZZ")


def log(msg):
    sys.stderr.write("[vbuild] %s\n" % msg)
    sys.stderr.flush()


def _run(cmd, cwd=None, quiet=True):
    p = subprocess.run(cmd, cwd=cwd, stdout=subprocess.PIPE, stderr=subprocess.STDOUT, text=True)
    if p.returncode != 0:
        sys.stderr.write(p.stdout[-8000:])
        raise BuildError("command failed: %s" % " ".join(cmd))
    return p.stdout


class BuildError(Exception):
    pass


def flavor_dir(flavor):
    return os.path.join(BUILD, flavor)


def build_libs(flavor):
    f = FLAVORS[flavor]
    d = flavor_dir(flavor)
    os.makedirs(d, exist_ok=True)
    flags = f["flags"] + " " + COMMON_WARN
    stamp = os.path.join(d, ".verif-flags")
    old = open(stamp).read() if os.path.exists(stamp) else None
    if not os.path.exists(os.path.join(d, "build.ninja")) or old != flags:
        _run(["cmake", "-G", "Ninja", "-S", REPO, "-B", d,
              "-DCMAKE_BUILD_TYPE=None", "-DDISABLE_SHARED=ON",
              "-DCMAKE_CXX_COMPILER=" + f["cxx"], "-DCMAKE_C_COMPILER=" + f["cc"],
              "-DCMAKE_CXX_FLAGS=" + flags, "-DCMAKE_C_FLAGS=" + flags])
        with open(stamp, "w") as fp:
            fp.write(flags)
    _run(["ninja", "-C", d, "cppcms-static", "booster-static"])


def _harness_ninja(flavor, names):
    f = FLAVORS[flavor]
    d = flavor_dir(flavor)
    hd = os.path.join(d, "h")
    os.makedirs(hd, exist_ok=True)
    inc = "-I%s -I%s/booster -I%s -I%s/booster -I%s/private -I%s/harness" % (REPO, REPO, d, d, REPO, VERIF)
    lines = [
        "cxx = %s" % f["cxx"],
        "flags = %s -std=gnu++17 %s %s" % (f["flags"], COMMON_WARN, inc),
        "libs = %s/libcppcms.a %s/booster/libbooster.a %s" % (d, d, LIBS),
        "rule cc",
        "  command = $cxx $flags $defs -MMD -MF $out.d -c $in -o $out",
        "  depfile = $out.d",
        "  deps = gcc",
        "rule link",
        "  command = $cxx $flags $in -o $out $libs $extra -rdynamic",
        "",
    ]
    for n in names:
        h = HARNESSES[n]
        src = os.path.join(VERIF, "harness", h["src"])
        lines.append("build %s.o: cc %s" % (n, src))
        lines.append("  defs = %s" % h["defs"])
        lines.append("build %s: link %s.o | %s/libcppcms.a %s/booster/libbooster.a" % (n, n, d, d))
        lines.append("  extra = %s %s" % (h["extra"], f.get("link_extra", "") if h["defs"].find("VERIF_FUZZ") >= 0 else ""))
    text = "\n".join(lines) + "\n"
    path = os.path.join(hd, "build.ninja")
    old = open(path).read() if os.path.exists(path) else None
    if old != text:
        with open(path, "w") as fp:
            fp.write(text)
    return hd


def build(flavor, harnesses=()):
    """Build libs of a flavor plus the named harnesses; returns dict name->path."""
    t0 = time.time()
    os.makedirs(BUILD, exist_ok=True)
    cov = os.environ.get("VERIF_COVERAGE") == "1" and flavor in ("asan", "tsan", "plain")
    if cov:
        flavor = "cov"
    lock = open(os.path.join(BUILD, ".lock-" + flavor), "w")
    fcntl.flock(lock, fcntl.LOCK_EX)
    try:
        build_libs(flavor)
        names = [n for n in harnesses]
        for n in names:
            if flavor not in HARNESSES[n]["flavors"] and not cov:
                raise BuildError("harness %s not registered for flavor %s" % (n, flavor))
            if not os.path.exists(os.path.join(VERIF, "harness", HARNESSES[n]["src"])):
                raise BuildError("harness source missing: %s" % HARNESSES[n]["src"])
        out = {}
        if names:
            # the ninja file lists every harness of this flavor whose source exists, builds the asked ones
            allnames = [n for n, h in HARNESSES.items() if (flavor in h["flavors"] or (cov and "VERIF_FUZZ" not in h["defs"]))
                        and os.path.exists(os.path.join(VERIF, "harness", h["src"]))]
            hd = _harness_ninja(flavor, allnames)
            _run(["ninja", "-C", hd] + names)
            for n in names:
                out[n] = os.path.join(hd, n)
    finally:
        fcntl.flock(lock, fcntl.LOCK_UN)
        lock.close()
    log("flavor %s (%s) ready in %.1fs" % (flavor, ",".join(harnesses) or "libs", time.time() - t0))
    return out


def build_all():
    for flavor in FLAVORS:
        if flavor == "cov":
            continue
        names = [n for n, h in HARNESSES.items() if flavor in h["flavors"]
                 and os.path.exists(os.path.join(VERIF, "harness", h["src"]))]
        if flavor == "fuzz" and not names:
            continue
        build(flavor, names)


if __name__ == "__main__":
    args = sys.argv[1:]
    try:
        if not args or args[0] == "all":
            build_all()
        else:
            build(args[0], args[1:])
    except BuildError as e:
        log(str(e))
        sys.exit(2)
