"""Independent protocol encoders and de-framers (HTTP/1.x, SCGI, FastCGI) plus the reference CGI mapping.
Nothing here comes from cppcms."""
import random
import struct
import zlib

UNRESERVED = b"ABCDEFGHIJKLMNOPQRSTUVWXYZabcdefghijklmnopqrstuvwxyz0123456789-._~"


# characters a URI path may carry as they are besides the unreserved ones (RFC 3986 pchar: sub-delims, ':' and '@');
# the parentheses are listed separately because the embedded server's tokenizer takes '(' for the start of a comment
PATH_RAW_OK = b"!$&'*+,;=:@()"


def pct_encode(b, keep=b"/", always=False, rnd=None, raw_ok=b""):
    out = bytearray()
    for c in b:
        if raw_ok and rnd and bytes([c]) in raw_ok and rnd.random() < 0.6:
            out.append(c)
        elif bytes([c]) in keep or (bytes([c]) in UNRESERVED and not (always or (rnd and rnd.random() < 0.15))):
            out.append(c)
        else:
            out += b"%" + (b"%02X" % c if (rnd is None or rnd.random() < 0.5) else b"%02x" % c)
    return bytes(out)


def url_decode(b, plus=True):
    out = bytearray()
    i = 0
    while i < len(b):
        c = b[i]
        if c == 0x2B and plus:
            out.append(0x20)
        elif c == 0x25 and i + 2 < len(b) + 0 and _isx(b[i + 1:i + 2]) and _isx(b[i + 2:i + 3]):
            out.append(int(b[i + 1:i + 3], 16))
            i += 2
        elif c == 0x25:
            pass  # cppcms drops a stray '%'
        else:
            out.append(c)
        i += 1
    return bytes(out)


def _isx(x):
    return len(x) == 1 and x in b"0123456789abcdefABCDEF"


def parse_form(qs):
    """reference application/x-www-form-urlencoded parser -> list of (name, value); None if malformed per cppcms rules"""
    out = []
    if not qs:
        return out
    for part in qs.split(b"&"):
        # cppcms: a pair without '=' or with an empty name makes the whole form invalid
        if part == b"" and qs.endswith(b"&") and part is qs.split(b"&")[-1]:
            continue
        eq = part.find(b"=")
        if eq <= 0:
            return None
        out.append((url_decode(part[:eq]), url_decode(part[eq + 1:])))
    return out


# --------------------------------------------------------------------------- abstract request
class Req:
    """CGI-level description of a request. path_info is the *decoded* path the application must see."""

    def __init__(self, method=b"GET", script=b"/echo", path_info=b"", query=None, headers=None, body=b"", content_type=None, token=b"t"):
        self.method = method
        self.script = script
        self.path_info = path_info
        self.query = query          # None = no '?' at all
        self.headers = headers or []  # list of (Name, value) as sent on HTTP; CGI name derived
        self.body = body
        self.content_type = content_type
        self.token = token

    def cgi_headers(self):
        out = []
        for n, v in self.headers:
            out.append((b"HTTP_" + n.upper().replace(b"-", b"_"), v))
        out.append((b"HTTP_X_TOKEN", self.token))
        return out

    def expected(self):
        e = {
            "method": self.method, "script_name": self.script, "path_info": self.path_info,
            "query_string": self.query or b"", "content_type": self.content_type or b"",
            "content_length": len(self.body),
        }
        return e


# --------------------------------------------------------------------------- HTTP
def http_encode(r, version=b"1.0", keep_alive=False, rnd=None, fold=False, host=b"localhost"):
    uri = r.script + pct_encode(r.path_info, rnd=rnd, raw_ok=PATH_RAW_OK)
    if r.query is not None:
        uri += b"?" + r.query
    lines = [r.method + b" " + uri + b" HTTP/" + version]
    hs = [(b"Host", host)] + list(r.headers) + [(b"X-Token", r.token)]
    if keep_alive:
        hs.append((b"Connection", b"keep-alive"))
    elif version == b"1.1":
        hs.append((b"Connection", b"close"))
    if r.content_type is not None:
        hs.append((b"Content-Type", r.content_type))
    if r.body or r.method in (b"POST", b"PUT"):
        hs.append((b"Content-Length", str(len(r.body)).encode()))
    if rnd:
        first = hs[0]
        rest = hs[1:]
        rnd.shuffle(rest)
        hs = [first] + rest
    for n, v in hs:
        if rnd and rnd.random() < 0.3:
            n = bytes(c ^ 0x20 if (rnd.random() < 0.5 and (65 <= c <= 90 or 97 <= c <= 122)) else c for c in n)
        sep = b": " if not rnd else rnd.choice([b": ", b":", b":  ", b" : ", b":\t"])
        if fold and rnd and b" " in v and rnd.random() < 0.5:
            # LWS folding: CRLF followed by SP/HT stands for the white space itself (only outside quoted strings and comments)
            i = v.index(b" ")
            if v[:i].replace(b"\\\"", b"").count(b"\"") % 2 == 0 and v[:i].count(b"(") == v[:i].count(b")"):
                v = v[:i] + b"\r\n" + v[i:]
        # optional white space after the value is not part of it either (RFC 7230: field-value is surrounded by OWS)
        tail = b"" if not rnd else rnd.choice([b"", b"", b"", b" ", b"\t", b"  \t "])
        lines.append(n + sep + v + tail)
    return b"\r\n".join(lines) + b"\r\n\r\n" + r.body


def http_parse_response(data):
    """strict HTTP/1.x response de-framer. returns dict(status, headers(list), body, rest, framing, errors)"""
    res = {"errors": [], "headers": [], "body": b"", "rest": b"", "status": None, "framing": None, "complete": False}
    he = data.find(b"\r\n\r\n")
    if he < 0:
        res["errors"].append("no header block")
        return res
    head = data[:he].split(b"\r\n")
    sl = head[0].split(b" ", 2)
    if len(sl) < 2 or not sl[0].startswith(b"HTTP/1.") or not sl[1].isdigit():
        res["errors"].append("bad status line %r" % head[0][:60])
        return res
    res["status"] = int(sl[1])
    res["version"] = sl[0]
    for h in head[1:]:
        c = h.find(b":")
        if c <= 0:
            res["errors"].append("bad header line %r" % h[:60])
            continue
        res["headers"].append((h[:c].strip(), h[c + 1:].strip()))
    body = data[he + 4:]
    hd = {}
    for n, v in res["headers"]:
        hd.setdefault(n.lower(), []).append(v)
    if hd.get(b"transfer-encoding", [b""])[0].lower() == b"chunked":
        res["framing"] = "chunked"
        out = bytearray()
        p = 0
        nchunks = 0
        while True:
            e = body.find(b"\r\n", p)
            if e < 0:
                res["errors"].append("chunk size line missing")
                break
            szs = body[p:e]
            try:
                sz = int(szs, 16)
            except ValueError:
                res["errors"].append("bad chunk size %r" % szs[:20])
                break
            if not szs or szs.strip() != szs:
                res["errors"].append("chunk size with spaces %r" % szs)
            p = e + 2
            if sz == 0:
                if body[p:p + 2] != b"\r\n":
                    res["errors"].append("terminal chunk not followed by CRLF")
                else:
                    p += 2
                    res["complete"] = True
                break
            if len(body) < p + sz + 2:
                res["errors"].append("truncated chunk")
                break
            out += body[p:p + sz]
            if body[p + sz:p + sz + 2] != b"\r\n":
                res["errors"].append("chunk data not followed by CRLF")
                break
            p += sz + 2
            nchunks += 1
        res["body"] = bytes(out)
        res["rest"] = body[p:]
        res["chunks"] = nchunks
    elif b"content-length" in hd:
        res["framing"] = "content-length"
        if len(hd[b"content-length"]) != 1 or not hd[b"content-length"][0].isdigit():
            res["errors"].append("bad Content-Length %r" % hd[b"content-length"])
            return res
        n = int(hd[b"content-length"][0])
        res["body"] = body[:n]
        res["rest"] = body[n:]
        res["complete"] = len(body) >= n
        if len(body) < n:
            res["errors"].append("body shorter than Content-Length (%d < %d)" % (len(body), n))
    else:
        res["framing"] = "close"
        res["body"] = body
        res["complete"] = True
    res["hd"] = hd
    return res


# --------------------------------------------------------------------------- SCGI
def cgi_env(r, extra=None):
    env = [(b"CONTENT_LENGTH", str(len(r.body)).encode()), (b"SCGI", b"1"), (b"REQUEST_METHOD", r.method), (b"SCRIPT_NAME", r.script),
           (b"PATH_INFO", r.path_info), (b"QUERY_STRING", r.query or b""), (b"SERVER_PROTOCOL", b"HTTP/1.0"), (b"HTTP_HOST", b"localhost"),
           (b"REMOTE_ADDR", b"127.0.0.1"), (b"GATEWAY_INTERFACE", b"CGI/1.1")]
    if r.content_type is not None:
        env.append((b"CONTENT_TYPE", r.content_type))
    env += r.cgi_headers()
    if extra:
        env += extra
    return env


def scgi_encode(r, rnd=None):
    env = cgi_env(r)
    if rnd:
        first = env[0]
        rest = env[1:]
        rnd.shuffle(rest)
        env = [first] + rest
    blob = b"".join(k + b"\0" + v + b"\0" for k, v in env)
    return str(len(blob)).encode() + b":" + blob + b"," + r.body


def cgi_parse_response(data):
    res = {"errors": [], "headers": [], "body": b"", "status": 200, "complete": True, "framing": "close"}
    he = data.find(b"\r\n\r\n")
    if he < 0:
        res["errors"].append("no header block")
        res["status"] = None
        return res
    for h in data[:he].split(b"\r\n"):
        c = h.find(b":")
        if c <= 0:
            res["errors"].append("bad header line %r" % h[:60])
            continue
        res["headers"].append((h[:c].strip(), h[c + 1:].strip()))
    hd = {}
    for n, v in res["headers"]:
        hd.setdefault(n.lower(), []).append(v)
    if b"status" in hd:
        try:
            res["status"] = int(hd[b"status"][0].split()[0])
        except ValueError:
            res["errors"].append("bad Status header")
    res["body"] = data[he + 4:]
    res["hd"] = hd
    res["rest"] = b""
    return res


# --------------------------------------------------------------------------- FastCGI
FCGI_BEGIN, FCGI_ABORT, FCGI_END, FCGI_PARAMS, FCGI_STDIN, FCGI_STDOUT, FCGI_STDERR, FCGI_DATA, FCGI_GET_VALUES, FCGI_GET_VALUES_RESULT, FCGI_UNKNOWN = range(1, 12)


def fcgi_record(rtype, reqid, content, padding=0, version=1):
    assert len(content) <= 65535
    return struct.pack(">BBHHBB", version, rtype, reqid, len(content), padding, 0) + content + b"\0" * padding


def fcgi_len(n, force4=False):
    if n < 128 and not force4:
        return bytes([n])
    return struct.pack(">I", n | 0x80000000)


def fcgi_pairs(env, rnd=None):
    out = bytearray()
    for k, v in env:
        out += fcgi_len(len(k), bool(rnd and rnd.random() < 0.2)) + fcgi_len(len(v), bool(rnd and rnd.random() < 0.2)) + k + v
    return bytes(out)


def fcgi_stream(rtype, reqid, data, rnd=None, maxrec=65535):
    out = bytearray()
    p = 0
    while p < len(data):
        n = min(maxrec, len(data) - p)
        if rnd and rnd.random() < 0.6:
            n = min(n, rnd.choice([1, 2, 7, 8, 9, 100, 4000, 65535]))
        pad = 0 if not rnd else rnd.choice([0, 0, 1, 7, (8 - n % 8) % 8, 255])
        out += fcgi_record(rtype, reqid, data[p:p + n], pad)
        p += n
    pad = 0 if not rnd else rnd.choice([0, 0, 5])
    out += fcgi_record(rtype, reqid, b"", pad)
    return bytes(out)


def fcgi_encode(r, reqid=1, keep_conn=False, rnd=None):
    env = [(k, v) for k, v in cgi_env(r) if k != b"SCGI"]
    if rnd:
        rnd.shuffle(env)
    begin = fcgi_record(FCGI_BEGIN, reqid, struct.pack(">HB5x", 1, 1 if keep_conn else 0))
    return begin + fcgi_stream(FCGI_PARAMS, reqid, fcgi_pairs(env, rnd), rnd) + fcgi_stream(FCGI_STDIN, reqid, r.body, rnd)


def fcgi_parse_response(data, reqid=1):
    """strict record-stream validation; returns dict with the CGI response carried by STDOUT"""
    res = {"errors": [], "stdout": b"", "stderr": b"", "end": None, "records": 0, "rest": b"", "max_record": 0, "complete": False}
    p = 0
    ended = False
    stdout_closed = False
    while p + 8 <= len(data):
        ver, rtype, rid, clen, plen, _ = struct.unpack(">BBHHBB", data[p:p + 8])
        if p + 8 + clen + plen > len(data):
            res["errors"].append("truncated record")
            break
        if ended:
            break
        content = data[p + 8:p + 8 + clen]
        p += 8 + clen + plen
        res["records"] += 1
        res["max_record"] = max(res["max_record"], clen)
        if ver != 1:
            res["errors"].append("record version %d" % ver)
        if rid != reqid and rtype not in (FCGI_GET_VALUES_RESULT, FCGI_UNKNOWN):
            res["errors"].append("record for request id %d" % rid)
        if rtype == FCGI_STDOUT:
            if stdout_closed and clen:
                res["errors"].append("STDOUT data after the closing empty STDOUT record")
            if clen == 0:
                stdout_closed = True
            res["stdout"] += content
        elif rtype == FCGI_STDERR:
            res["stderr"] += content
        elif rtype == FCGI_END:
            if clen != 8:
                res["errors"].append("END_REQUEST body of %d bytes" % clen)
            else:
                app_status, proto_status = struct.unpack(">IB3x", content)
                res["end"] = (app_status, proto_status)
            ended = True
            res["complete"] = True
        elif rtype in (FCGI_GET_VALUES_RESULT, FCGI_UNKNOWN) and rid == 0:
            res.setdefault("management", []).append(rtype)
        else:
            res["errors"].append("unexpected record type %d" % rtype)
    res["rest"] = data[p:]
    if ended is False and p < len(data) and p + 8 > len(data):
        res["errors"].append("trailing partial record header")
    cgi = cgi_parse_response(res["stdout"]) if res["stdout"] else {"errors": ["no STDOUT"], "status": None, "headers": [], "body": b"", "hd": {}}
    res["cgi"] = cgi
    return res


# --------------------------------------------------------------------------- misc
def gunzip(b):
    return zlib.decompress(b, 31)


def pattern_bytes(pat, n, start=0):
    out = bytearray(n)
    base = (pat * 2654435761) & 0xFFFFFFFF
    for i in range(n):
        x = (base + ((start + i) * 40503)) & 0xFFFFFFFF
        x ^= x >> 15
        out[i] = (x >> 3) & 0xFF
    return bytes(out)
