"""Generates /verif/MANIFEST.json from the table below (python3 -m vlib.manifest)."""
import json
import os

VERIF = os.path.dirname(os.path.dirname(os.path.abspath(__file__)))

CHECKS = {}


def chk(pid, category, text, note, technique, design_ref, engine):
    CHECKS[pid] = dict(category=category, text=text, note=note, technique=technique, design_ref=design_ref, engine=engine)


chk("C13", "exploration",
    "Each server instance gets a sandbox (document root, a sibling whose name has the root as prefix, alias targets, outside areas, file/dir/absolute/nested symlinks in and out, FIFO, dot-files, HTML-special names; every file holds a "
    "unique marker) and a configuration from check_symlink x listing x 0..2 aliases x sync/async; request paths built from 50 segment kinds with five percent-encoding styles (encoded separators, double encoding, NUL, non-UTF-8) go "
    "over HTTP and verbatim PATH_INFO over SCGI; a marker from outside every configured root must never appear in any reply; listings only when enabled, without dot-files, HTML-escaped; canonical requests must be served from the "
    "right root (alias /al must not capture /alx); no 5xx; ASan/UBSan on the server.",
    "With check_symlink off containment is lexical as documented; strict root selection judged only on canonical-form requests.",
    "runtime monitor: marker-containment oracle over generated hostile paths against a real server, ASan/UBSan", "DESIGN.md section 4 / C13", "vsrv")

chk("C14", "exploration",
    "Both UTF-8 next-character decoders (cppcms plain/html, booster) are compared with an independent Table 3-7 reference on every byte window of "
    "length 1..3 and (thorough) all 2^32 windows of length 4 (quick: a boundary grid); whole-string validators, counters, booster utf_to_utf and "
    "validate_or_filter on random strings of valid/invalid pieces; all bytes and byte pairs for every single-byte code-page name. Held on everything enumerated; "
    "thorough is exhaustive for the next-character functions.",
    "Trusts the reference decoder; DEL in HTML mode and TAB/LF/CR for code pages are don't-cares; iconv-backed encodings outside the validator table are not enumerated.",
    "runtime oracle comparison (reference decoder) over exhaustive/generated inputs, ASan+UBSan on a sample", "DESIGN.md section 4 / C14", "utf_mon")

chk("C15", "exploration",
    "HTML escaping on every output path (string, streambuf, ostream, filters::escape, nine form widgets), urlencode/urldecode and base64url are run on all strings of length 0..2 "
    "(all 2^24 three-byte blocks for base64), all lengths 0..1024 with exact-size heap buffers under ASan, random strings to 64 KiB, malformed decoder input and sinks failing at every cut; "
    "oracles: independent un-escape/percent/base64 references plus python html/urllib/base64. Held on everything explored.",
    "Failure reporting of the streaming variants is outside the statement and only recorded; a '%' not followed by two hex digits has no specified decoding (memory safety only).",
    "runtime oracle comparison (inverse functions, alphabet checks) + ASan/UBSan with exact-size buffers", "DESIGN.md section 4 / C15", "codec_mon")

chk("C16", "exploration",
    "Every message length 0..4300 for md5/sha1/sha224/sha256/sha384/sha512, fresh and reused objects, random append chunkings, HMAC keys 0..3 block sizes, AES-CBC 128/192/256 (explicit and nonce IV, "
    "one or several calls, second object decrypting) compared with libgcrypt, an implementation independent of the OpenSSL/bundled code under test, plus embedded RFC/FIPS/SP800-38A vectors; thorough adds valgrind memcheck.",
    "Trusts libgcrypt (cross-checked against the embedded standard vectors in the same run).",
    "differential runtime oracle (libgcrypt, standard vectors) under ASan+UBSan, memcheck in thorough", "DESIGN.md section 4 / C16", "crypto_mon")

chk("C19", "exploration",
    "35 nested types with generated values round-trip through archive (>>, &, serialization_traits); malformed archives (every truncation, every length field x 28 boundary values, short tails, bit flips, "
    "random bytes, foreign archives; libFuzzer in thorough) must throw or agree with a strict independently written shadow reader, under ASan+UBSan (memcheck in thorough). "
    "Found and fixed: next_chunk_size accepted chunks ending 1..3 bytes past the archive.",
    "Shadow reader defines the format; session/cache convenience calls are covered by the C05/C06/C07 monitors' data paths, not here.",
    "runtime monitors: round-trip oracle + strict shadow reader + ASan/UBSan, libFuzzer", "DESIGN.md section 4 / C19", "ser_mon")

chk("C01", "exploration",
    "Abstract CGI-level requests are encoded independently for HTTP/1.0+1.1, SCGI and FastCGI and sent to a real cppcms::service (sync and async echo applications) while a link-time readv() shim imposes read schedules: "
    "every single split point of the header block, random multi-splits, 1-byte reads; the echo must equal a reference CGI mapping, be identical across segmentations and across the three front-ends; HTTP keep-alive and FastCGI "
    "KEEP_CONN sequences of 2..6 pipelined requests are checked request by request. ASan/UBSan on the server.",
    "Requests come from the generated grammar (balanced quotes/parentheses, no NUL); loopback TCP only; the readv shim stands for arbitrary TCP segmentation.",
    "runtime monitor: reference CGI mapping + metamorphic relations (segmentation, front-end) with server-side read-schedule injection", "DESIGN.md section 4 / C01", "vsrv")

chk("C02", "fault_enumeration",
    "Valid http/scgi/fastcgi requests mutated by 9 generic operators and ~40 protocol-specific framing classes are sent to a real cppcms::service under random read schedules and ended by half-close, RST at a random offset or close; "
    "monitors: process survival and ASan/UBSan silence, well-formed probes on other connections during and after, at-most-once handler/on_error calls per token (event log), close after peer EOF, definitely-invalid classes never served, "
    "FastCGI error replies well-formed. Found and fixed: negative Content-Length, SCGI strlen over-read, three FastCGI framing defects, peer-reset crash in the HTTP front-end.",
    "Lenient readings (non-numeric Content-Length as 0, soft 16 KiB header cap) are not alarms; reach is the generated classes plus random mutations, not all byte strings.",
    "fault injection (mutated requests, resets, read schedules) with sanitizers + probe/exactly-once/close monitors over an event log", "DESIGN.md section 4 / C02", "vsrv")

chk("C03", "fault_enumeration",
    "Sync and async writer applications execute generated scripts (writes of 0..131070 bytes through write/<</put, flushes, setbuf, io_mode normal/nogzip, full/partial asynchronous buffering, asynchronous flushes, headers, "
    "cookies, page-cache store/fetch with triggers) over HTTP/1.0, 1.1 close, 1.1 keep-alive (chunked), SCGI and FastCGI with and without gzip, while a link-time writev() shim accepts only scheduled prefixes or reports EAGAIN "
    "(non-blocking descriptors only) and clients read slowly; independent strict de-framers must yield exactly one header block with every header/cookie once and a body (gunzipped) equal to the concatenation of the writes; "
    "cached pages must be byte-identical to what was sent. Found and fixed: setbuf() below the buffered amount corrupted asynchronous output.",
    "raw / asynchronous_raw io modes are not driven; expected bytes are recomputed from the script by the driver.",
    "fault injection at writev() (short writes, would-block) + independent de-framers comparing against the script's ground truth, ASan/UBSan", "DESIGN.md section 4 / C03", "vsrv")

chk("C04", "exploration",
    "Generated rule sets (xhtml/html, tag kinds, boolean/integer/regex/uri/relative_uri/absolute_uri properties, comments and numeric entities on/off, six encodings) x grammar-generated and mutated inputs x "
    "{remove, escape} x replacement char: validate(filter(x)) holds, filter is idempotent, valid input is returned unchanged, accepted input is well-formed in the declared encoding, and an independent "
    "browser-lenient tokenizer finds only tags, attributes, values, URI schemes, entities and comments that the harness's own description of the rules allows; libFuzzer in thorough. "
    "Found and fixed: absolute_uri properties accepted relative references like http/x.",
    "The lenient tokenizer and the rule description are the trusted oracle; rule sets are limited to the generated family; UTF-16LE is judged without the tokenizer.",
    "runtime oracle: independent tokenizer + metamorphic relations (validate∘filter, idempotence) under ASan/UBSan, libFuzzer", "DESIGN.md section 4 / C04", "xss_mon")

chk("C10", "exploration",
    "Real tcp_cache_service servers (1..2) and tcp_cache_factory clients (2..3, with or without an L1 cache) on loopback are driven by one thread in a random total order of store/fetch/rise/clear/stats under a virtual clock; "
    "every fetch on every node must equal a sequential model of the servers (value, trigger set, deadline), in particular after another node replaced, invalidated or cleared a value still sitting in this node's L1; arbitrary "
    "binary keys/values, >64 KiB values, 1000-trigger lists; the dump hook on the servers' backing caches checks single, stable placement. Found and fixed: an L1 refresh merged the replaced value's triggers. Known finding: keys or "
    "trigger names containing NUL and empty trigger names (NUL-separated wire format).",
    "Total order by one driver thread (no concurrent clients); remove() is a documented no-op for the network cache.",
    "runtime monitor: sequential reference model across nodes + placement invariant through the dump hook, ASan/UBSan", "DESIGN.md section 4 / C10", "netcache_mon")

chk("C11", "exploration",
    "Grammar-generated RFC 8259 documents carrying their abstract tree (all escape forms, surrogate pairs, numbers across the double range, depth 0..600) must be accepted iff depth <= 512 with node-by-node equal values; "
    "mutations, garbage and libFuzzer input go through the any-bytes oracle (target untouched on failure, UTF-8/depth invariants, save/load fixpoint from the second round); trees built via the API are written "
    "compact/readable into streams with hostile locales and checked by a strict RFC recogniser, python json and re-parsing; typed extraction is exact or throws for 12 integer types, float, double. "
    "Known finding: a number within 16-digit rounding of DBL_MAX is written as text that overflows on parsing.",
    "Strings given to the API are valid UTF-8 and numbers finite; float extraction means nearest float; duplicate keys must be refused; strtod is the numeric reference.",
    "runtime oracle: generator-with-expected-tree, strict RFC recogniser, round-trip fixpoint, ASan/UBSan, libFuzzer", "DESIGN.md section 4 / C11", "json_mon")

chk("C07", "exploration",
    "Every operation sequence to depth 4 (quick) / 5 (thorough) over a 21-symbol alphabet on the thread-shared cache (one level less on the process-shared one), long random histories over large alphabets, "
    "shared-memory pressure runs and cache_interface frame building with nested trigger recorders; after every operation fetch results, stats() and a complete dump obtained through a guarded hook under the "
    "cache's own exclusive lock (with index-consistency invariants) are compared with an executable reference model under a virtual clock. Found and fixed: a store failing for lack of shared memory left the superseded value.",
    "Trusts the reference model and the dump hook; page-level store_page/fetch_page needs an HTTP context and is covered by the C03 monitor once built.",
    "runtime monitor: step-wise reference model + invariant hook over exhaustive small and long random histories, ASan/UBSan/LSan", "DESIGN.md section 4 / C07", "cache_mon")

chk("C08", "exploration",
    "Limits 1..8 on both back ends with key alphabets larger than the limit: each store is judged by the eviction transition relation computed from hook dumps before and after (exactly as many victims as needed, "
    "expired before live, live victims = tail of the live LRU order), entry/trigger counts equal the model's, LRU order of live entries equals the model's; process-shared fill/clear/refill cycles with values up to a "
    "third of the segment check that free memory returns (within allocator rounding) after every clear; thread-shared runs under LeakSanitizer.",
    "Victim choice among several expired entries is free; under genuine shared-memory pressure (reported by the hook) extra evictions, dropped stores or a full clear are accepted.",
    "runtime monitor: transition-relation oracle + conservation invariant at a hook, ASan/UBSan/LSan", "DESIGN.md section 4 / C08", "cache_mon")

chk("C09", "exploration",
    "2..8 threads x random operation mixes on one thread-shared cache with seeded yield points, under ThreadSanitizer (race reports and lock-order inversions are violations) and ASan; histories recorded at the "
    "client boundary with unique values are checked offline: sound stale/torn/foreign-read conditions on long histories, full linearizability (WGL search with memoisation) on short ones, progress watchdog for completion; bounded progress (10 s) of "
    "store/rise/remove under a flood of 8 readers on one hot key, both backends. Found and fixed: reader-preferring locks starving writers.",
    "Race freedom is claimed for the operations and interleavings TSan observed (happens-before generalises over schedules, not over code paths); linearizability only for the short histories searched.",
    "ThreadSanitizer + offline linearizability checker over recorded histories", "DESIGN.md section 4 / C09", "cache_conc")

chk("C12", "exploration",
    "Part lists with adversarial contents (every proper prefix of the delimiter, CR/LF/dash runs, delimiter minus its last byte) are encoded independently and decoded by impl::multipart_parser through the request's "
    "consume loop under every 1-cut and 2-cut of short bodies, fixed chunk sizes and random cuts around delimiters, with spills to temporary files that must disappear; truncated, extended and unclosed bodies "
    "must be refused; every mutated body must give the same outcome under any chunking (also coverage-guided in thorough). End-to-end limits/filters go through the server harness.",
    "The in-process loop mirrors request::on_content_progress; boundaries are RFC 2046 bchars.",
    "runtime oracle: independent encoder + metamorphic chunking relation under ASan/UBSan, libFuzzer", "DESIGN.md section 4 / C12", "mp_mon")

chk("C20", "exploration",
    "Generated application trees with overlapping patterns, capture-group selections, method filters and colliding mount prefixes are driven in-process; for every URL (in, near, outside the pattern languages) and method "
    "the handler that ran and its arguments must equal an independent std::regex model's first full match in registration order, else 404; url_mapper URLs for absolute/relative/'..' keys are routed back; "
    "mount_point::match is compared with the model on host/script/path triples.",
    "Pattern family restricted to constructs on which ECMAScript std::regex and PCRE agree; pool-level mount order over real front-ends is exercised by the server harness.",
    "runtime differential oracle (independent regex engine + routing model) under ASan/UBSan", "DESIGN.md section 4 / C20", "route_mon")

chk("C05", "exploration",
    "For 16 key materials (six HMACs, AES-128/192/256 with split, combined and derived keys) genuine cookies built by the real encryptors load exactly while unexpired (to the deadline second) and every tampering of "
    "the decoded cipher text (all single-bit flips for short ones, all truncations, extensions, block swaps, splices, MAC transplants, foreign keys/algorithms, arbitrary strings) is rejected with the cookie cleared; "
    "every successful load returns a recorded save; pairs of session_pool objects configured from JSON that differ in one hex digit of one configured key must refuse each other's cookies; necessary conditions for "
    "confidentiality are checked on the encrypting back ends; ASan/UBSan, memcheck in thorough.",
    "Confidentiality proper is a hyperproperty and only necessary conditions are observed; forging resistance is judged on the tampering classes generated, not cryptographically.",
    "runtime monitor: provenance oracle over generated and tampered cookies under a virtual clock, ASan/UBSan/memcheck", "DESIGN.md section 4 / C05", "sess_mon")

chk("C06", "exploration",
    "Random histories of 1..4 simulated browsers and an adversary against session_interface over a shared pool, for location x storage x expiration mode x age, under a virtual clock; an executable model (exact contents, "
    "deadline interval per the documented policy) predicts every load; identifiers are checked for form, freshness, provenance from /dev/urandom and revocation after clear/reset/move; a wrapping storage and an open() shim "
    "verify that only identifiers of the issued form ever address storage; exposed cookies must track the session. Found and fixed: exposed cookies were not reissued when the deadline moved.",
    "Deadline inside the 10 % renewal window is accepted either way; network storage not driven; unpredictability only as provenance + uniqueness.",
    "runtime monitor: reference model over generated histories with virtual clock and I/O shims, ASan/UBSan", "DESIGN.md section 4 / C06", "sess_hist")

chk("C18", "fault_enumeration",
    "The write() sequence of a file-backed session save is recorded through a link-time shim; every prefix of it, every byte prefix of the data area, subsets of touched 512-byte sectors, and real child-process crashes "
    "after exactly k bytes, on top of absent/shorter/equal/longer previous files, are each followed by the real load(): the result is 'no session' (file unlinked) or a complete earlier/in-flight payload with a deadline of a save "
    "that is not past (payloads up to 70 KB); gc() is compared with a directory model (never removes a live session or a foreign file, removes expired/unreadable ones); concurrent part (fstore_conc): owners against gc/loader "
    "threads and processes, pre-forked multi-threaded workers, a worker leaving, a worker killed inside save(), for mutex / process-shared mutex / fcntl locking. Found and fixed: false EDEADLK, shared mutexes destroyed by a leaving worker, lock left by a killed worker.",
    "Header write atomic (as the property states); sector model as described; CRC-32 collisions would be genuine.",
    "fault injection at write() (real kills + synthesized crash states) with the real loader as oracle, ASan/UBSan", "DESIGN.md section 4 / C18", "fstore_mon")

chk("C17", "exploration",
    "For each reactor {epoll, poll, select}: one loop thread and 1..8 producers posting handlers, arming/cancelling timers and descriptor waits, closing devices with pending waits; deadline_timer/stream_socket objects "
    "raced on the loop thread (incl. cancel of a timer whose handler is already queued while new timers are armed); cppcms::thread_pool with posting/cancelling threads and throwing jobs; every handler has a unique id and an "
    "offline checker requires exactly one run on the loop thread with the allowed code and not before the deadline; lost handlers are decided by FIFO sentinels, not timeouts; ThreadSanitizer, ASan and plain builds with "
    "seeded yield points; single-threaded scenarios for several waits of one kind on a descriptor and for a descriptor number reused inside a handler; a producer closing a descriptor with a wait pending and arming the "
    "socket that takes its number; waits whose event has happened get 10 s before the final clean-up may cancel them. Found and fixed: descriptor requests overtaking queued ones, cancel of a just-expired timer hitting a "
    "reused id, a second wait of one kind dropping the first handler, a cancelled wait receiving the events of the descriptor that reused its number (in-loop and cross-thread).",
    "Caller contract (objects used by one thread at a time, raw timer ids cancelled only before they can have fired) is respected by the workload; the close-and-reuse action is not run under ThreadSanitizer (it reports close() against the queued epoll_ctl); stop() racing with post() only at-most-once.",
    "ThreadSanitizer + offline exactly-once checker over unique-id event logs with ordering sentinels", "DESIGN.md section 4 / C17", "aio_mon")

ENGINES = [
    dict(name="check", path="check", kind_free_text="python3 driver: builds flavors from /repo's working tree, runs monitors in parallel, known-findings matching, evidence"),
    dict(name="utf_mon", path="harness/utf_mon.cpp", serves_properties=["C14"], kind_free_text="in-process monitor, reference decoder oracle"),
    dict(name="xss_mon", path="harness/xss_mon.cpp", serves_properties=["C04"], kind_free_text="in-process monitor with independent lenient HTML tokenizer; libFuzzer target xss_fuzz"),
    dict(name="json_mon", path="harness/json_mon.cpp", serves_properties=["C11"], kind_free_text="in-process monitor; libFuzzer target json_fuzz"),
    dict(name="cache_mon", path="harness/cache_mon.cpp", serves_properties=["C07", "C08"], kind_free_text="in-process monitor: reference model, eviction relation, dump hook, virtual clock"),
    dict(name="cache_conc", path="harness/cache_conc.cpp", serves_properties=["C09"], kind_free_text="multi-threaded history recorder + L1 conditions + WGL linearizability checker (tsan and asan flavors)"),
    dict(name="mp_mon", path="harness/mp_mon.cpp", serves_properties=["C12"], kind_free_text="in-process multipart monitor; libFuzzer target mp_fuzz"),
    dict(name="route_mon", path="harness/route_mon.cpp", serves_properties=["C20"], kind_free_text="in-process routing monitor with std::regex model"),
    dict(name="sess_mon", path="harness/sess_mon.cpp", serves_properties=["C05"], kind_free_text="in-process cookie tampering monitor"),
    dict(name="sess_hist", path="harness/sess_hist.cpp", serves_properties=["C06"], kind_free_text="in-process session history monitor with browser/adversary simulation and model"),
    dict(name="fstore_mon", path="harness/fstore_mon.cpp", serves_properties=["C18"], kind_free_text="crash-point enumerator for session_file_storage with write()/open() shims"),
    dict(name="fstore_conc", path="harness/fstore_conc.cpp", serves_properties=["C18"], kind_free_text="concurrent file-storage monitor: threads and forked worker processes, three lock modes, delayed unlink()/write() shims (asan and tsan flavors)"),
    dict(name="aio_mon", path="harness/aio_mon.cpp", serves_properties=["C17"], kind_free_text="multi-threaded event-loop / worker-pool monitor (tsan, asan, plain flavors)"),
    dict(name="vsrv", path="harness/vsrv.cpp", serves_properties=["C01", "C02", "C03", "C12", "C13"], kind_free_text="real cppcms::service (http+scgi+fastcgi) with monitor apps, readv/writev schedule shims, event log; python protocol clients in vlib/proto.py, vlib/srv.py"),
    dict(name="netcache_mon", path="harness/netcache_mon.cpp", serves_properties=["C10"], kind_free_text="in-process network-cache monitor (servers + clients on loopback)"),
    dict(name="codec_mon", path="harness/codec_mon.cpp", serves_properties=["C15"], kind_free_text="in-process monitor, inverse-function oracles"),
    dict(name="crypto_mon", path="harness/crypto_mon.cpp", serves_properties=["C16"], kind_free_text="in-process differential monitor against libgcrypt"),
    dict(name="ser_mon", path="harness/ser_mon.cpp", serves_properties=["C19"], kind_free_text="in-process monitor, shadow reader; also libFuzzer target ser_fuzz"),
]

PENDING_REASON = "check not built yet in this round (design in DESIGN.md section 4); nothing is claimed for it"


def main():
    allp = [json.loads(l)["id"] for l in open(os.path.join(VERIF, "properties.jsonl"))]
    checks = []
    for pid in allp:
        if pid not in CHECKS:
            continue
        c = CHECKS[pid]
        checks.append({
            "property_id": pid,
            "quick_cmd": "./check %s --tier quick" % pid,
            "thorough_cmd": "./check %s --tier thorough" % pid,
            "evidence_file": "evidence/%s.json" % pid,
            "replay_cmd_template": "./check %s --replay {path}" % pid,
            "engine": c["engine"],
            "level_claimed": {"category": c["category"], "text": c["text"], "design_ref": c["design_ref"]},
            "level_note": c["note"],
            "technique": c["technique"],
        })
    hooks_path = os.path.join(VERIF, "hooks.json")
    hooks = json.load(open(hooks_path)) if os.path.exists(hooks_path) else {"source_commits": []}
    m = {
        "version": 1,
        "setup_cmd": "bin/vbuild all",
        "hooks": {
            "guard": "CPPCMS_VERIF",
            "enable": "bin/vbuild <flavor> compiles /repo with -DCPPCMS_VERIF into /verif/build/<flavor> (static libs) and links the harnesses against it",
            "baseline_off_cmd": "bin/baseline_off",
            "source_commits": hooks.get("source_commits", []),
            "add_only": True,
        },
        "engines": ENGINES,
        "checks": checks,
        "notes": "All checks: exit 0 held / 1 VIOLATION / 2 inconclusive (harness failure, coverage minimum not reached). Known findings and fixed entries: known_findings.json.",
        "not_applicable": [{"property_id": p, "reason": PENDING_REASON} for p in allp if p not in CHECKS],
    }
    with open(os.path.join(VERIF, "MANIFEST.json"), "w") as f:
        json.dump(m, f, indent=1)
        f.write("\n")


if __name__ == "__main__":
    main()
