"""libFuzzer runs (clang-14, fuzz flavor) for the coverage-guided part of thorough tiers."""
import glob
import os
import re
import subprocess

from . import common


def run_libfuzzer(ck, harness, seconds, jobs=16, key_prefix="fuzz", max_len=4096, seeds=(), extra=()):
    exe = ck.build("fuzz", [harness])[harness]
    d = ck.scratch("fuzz-" + harness)
    corpus = os.path.join(d, "corpus")
    os.makedirs(corpus, exist_ok=True)
    for i, s in enumerate(seeds):
        with open(os.path.join(corpus, "seed%d" % i), "wb") as f:
            f.write(s)
    env = dict(os.environ)
    env.update(common.SAN_ENV)
    env["ASAN_OPTIONS"] = env["ASAN_OPTIONS"] + ":quarantine_size_mb=8"
    cmd = [exe, corpus, "-max_total_time=%d" % seconds, "-jobs=%d" % jobs, "-workers=%d" % jobs, "-max_len=%d" % max_len,
           "-seed=%d" % (ck.seed & 0x7FFFFFFF), "-print_final_stats=1", "-artifact_prefix=" + d + "/"] + list(extra)
    try:
        p = subprocess.run(cmd, cwd=d, env=env, stdout=subprocess.PIPE, stderr=subprocess.STDOUT, timeout=seconds * 3 + 600)
    except subprocess.TimeoutExpired:
        ck.inconclusive += 1
        return
    execs = 0
    cov = 0
    for lf in glob.glob(os.path.join(d, "fuzz-*.log")):
        txt = open(lf, errors="replace").read()
        m = re.findall(r"stat::number_of_executed_units:\s*(\d+)", txt)
        if m:
            execs += int(m[-1])
        m = re.findall(r"cov: (\d+)", txt)
        if m:
            cov = max(cov, int(m[-1]))
        kind, key = common.sanitizer_key(txt)
        if key or "deadly signal" in txt or re.search(r"==\d+== ?ERROR: libFuzzer", txt):
            arts = re.findall(r"Test unit written to (\S+)", txt)
            blob = None
            if arts and os.path.exists(arts[0]):
                blob = open(arts[0], "rb").read().hex()
            viols = re.findall(r'\{"viol":\{"key":"([^"]+)"', txt)
            k = viols[0] if viols else (key or "crash")
            ck.violation("%s:%s" % (key_prefix, k), txt[-3000:], {"fuzz_input_hex": blob, "harness": harness})
    ck.count("fuzz_execs", execs)
    ck.counters["max_fuzz_edges"] = max(ck.counters.get("max_fuzz_edges", 0), cov)
    ck.count("fuzz_corpus", len(os.listdir(corpus)))
    if execs == 0:
        ck.fail_harness("libFuzzer run of %s executed nothing: %s" % (harness, p.stdout[-800:].decode("utf-8", "replace")))
