"""Shared driver machinery: running harnesses, violations, known findings, evidence."""
import array
import concurrent.futures
import hashlib
import json
import os
import re
import shutil
import signal
import subprocess
import sys
import time

from . import build as vbuild

VERIF = vbuild.VERIF
REPO = vbuild.REPO
NCPU = os.cpu_count() or 4

SAN_ENV = {
    "ASAN_OPTIONS": "halt_on_error=1:abort_on_error=0:detect_leaks=0:exitcode=98:allocator_may_return_null=1:detect_stack_use_after_return=0",
    "UBSAN_OPTIONS": "print_stacktrace=1:halt_on_error=1:exitcode=98",
    "TSAN_OPTIONS": "halt_on_error=1:exitcode=98:second_deadlock_stack=1:history_size=4:suppressions=" + os.path.join(os.path.dirname(os.path.dirname(os.path.abspath(__file__))), "tsan.supp"),
    "LSAN_OPTIONS": "exitcode=98",
}

SAN_PATTERNS = [
    (re.compile(r"ERROR: AddressSanitizer: (\S+)"), "asan"),
    (re.compile(r"ERROR: LeakSanitizer: (\S+)"), "lsan"),
    (re.compile(r"WARNING: ThreadSanitizer: ([^(\n]+)"), "tsan"),
    (re.compile(r"runtime error: ([^\n]+)"), "ubsan"),
    (re.compile(r"AddressSanitizer:DEADLYSIGNAL"), "asan-signal"),
]
FRAME_RE = re.compile(r"#\d+ (?:0x[0-9a-f]+ )?(?:in )?([^\n]+?) (/[^\s:]+):(\d+)")


class Result:
    def __init__(self):
        self.summary = None
        self.viols = []
        self.rc = None
        self.stderr_tail = ""
        self.timed_out = False
        self.cmd = None
        self.env = None
        self.wall = 0.0
        self.events = []
        self.label = ""


def sanitizer_excerpt(stderr, n=3500):
    """the beginning of the first sanitizer report (that is where the faulting frames are)"""
    for rx, _ in SAN_PATTERNS:
        m = rx.search(stderr)
        if m:
            a = max(0, stderr.rfind("\n", 0, m.start()))
            return stderr[a:a + n]
    return stderr[-n:]


def sanitizer_key(stderr):
    """Returns (kind, key) when the text contains a sanitizer report / uncaught exception."""
    for rx, kind in SAN_PATTERNS:
        m = rx.search(stderr)
        if m:
            what = (m.group(1) if m.groups() else "").strip()
            if kind == "ubsan":
                what = re.sub(r"0x[0-9a-f]+|\d+", "N", what)[:60]
            frame = ""
            for fm in FRAME_RE.finditer(stderr, m.start()):
                path = fm.group(2)
                if path.startswith(REPO + "/") and "/harness/" not in path:
                    fn = re.sub(r"\(.*", "", fm.group(1)).split(" ")[-1]
                    frame = "%s@%s" % (fn, os.path.relpath(path, REPO))
                    break
            return kind, "san:%s:%s:%s" % (kind, what.replace(" ", "-"), frame)
    m = re.search(r"terminate called after throwing an instance of '([^']+)'(?:\s*what\(\):\s*([^\n]*))?", stderr)
    if m:
        return "abort", "abort:uncaught:%s:%s" % (m.group(1), (m.group(2) or "")[:60].strip().replace(" ", "-"))
    m = re.search(r"Assertion [`'](.*?)' failed", stderr)
    if m:
        return "abort", "abort:assert:%s" % m.group(1)[:60].replace(" ", "-")
    return None, None


class Check:
    def __init__(self, pid, tier, seed):
        self.pid = pid
        self.tier = tier
        self.seed = seed
        self.t0 = time.time()
        self.violations = []      # dicts key, detail, replay
        self.counters = {}
        self.samples = []
        self.distinct = {}        # name -> set of ints
        self.inconclusive = 0
        self.harness_failures = []
        self.extra = {}
        self.assumptions = []
        self.rundir = os.path.join(VERIF, "run", "%s-%d" % (pid, os.getpid()))
        os.makedirs(self.rundir, exist_ok=True)
        self._n = 0
        import glob
        for old in glob.glob(os.path.join(VERIF, "replays", pid + "-*.json")):
            try:
                os.unlink(old)
            except OSError:
                pass

    # ---- building ------------------------------------------------------
    def build(self, flavor, harnesses):
        try:
            return vbuild.build(flavor, harnesses)
        except vbuild.BuildError as e:
            self.fail_harness("build %s: %s" % (flavor, e))
            self.finish_abort()

    # ---- running -------------------------------------------------------
    def scratch(self, name=None):
        self._n += 1
        d = os.path.join(self.rundir, name or ("s%d" % self._n))
        os.makedirs(d, exist_ok=True)
        return d

    def run_one(self, cmd, env=None, timeout=600, stdin=None, label="", cwd=None, retry=True):
        e = dict(os.environ)
        e.update(SAN_ENV)
        if env:
            e.update(env)
        r = Result()
        r.cmd = cmd
        r.env = env or {}
        r.label = label
        t0 = time.time()
        try:
            p = subprocess.run(cmd, env=e, input=stdin, stdout=subprocess.PIPE, stderr=subprocess.PIPE,
                               timeout=timeout, cwd=cwd or self.rundir)
            r.rc = p.returncode
            out = p.stdout.decode("utf-8", "replace")
            err = p.stderr.decode("utf-8", "replace")
        except subprocess.TimeoutExpired as te:
            r.timed_out = True
            out = (te.stdout or b"").decode("utf-8", "replace")
            err = (te.stderr or b"").decode("utf-8", "replace")
        r.wall = time.time() - t0
        r.stderr_tail = err[-6000:]
        r.stderr_full = err
        for line in out.splitlines():
            if not line.startswith("{"):
                continue
            try:
                j = json.loads(line)
            except ValueError:
                continue
            if "viol" in j:
                r.viols.append(j["viol"])
            elif "summary" in j:
                r.summary = j["summary"]
            else:
                r.events.append(j)
        if r.timed_out and retry:
            return self.run_one(cmd, env, timeout * 2, stdin, label, cwd, retry=False)
        return r

    def absorb(self, r, need_summary=True, count_keys=True):
        """Fold a harness result into the check state; returns True if usable."""
        for v in r.viols:
            rep = {"cmd": r.cmd, "env": r.env, "case": v.get("replay")}
            self.violation(v["key"], v.get("detail", ""), rep)
        if r.timed_out:
            self.inconclusive += 1
            self.counters["timeouts"] = self.counters.get("timeouts", 0) + 1
            return False
        kind, key = sanitizer_key(r.stderr_full)
        if key and (r.rc != 0 or kind in ("tsan",)):
            self.violation(key, sanitizer_excerpt(r.stderr_full), {"cmd": r.cmd, "env": r.env})
            return False
        if r.rc != 0 and not r.viols:
            if r.rc < 0:
                self.violation("crash:signal-%d:%s" % (-r.rc, r.label), r.stderr_tail[-2000:], {"cmd": r.cmd, "env": r.env})
                return False
            self.fail_harness("%s rc=%s: %s" % (r.label or r.cmd[0], r.rc, r.stderr_tail[-1500:]))
            return False
        if r.summary is None:
            if need_summary:
                self.fail_harness("%s produced no summary (rc=%s): %s" % (r.label or r.cmd[0], r.rc, r.stderr_tail[-800:]))
            return False
        if count_keys:
            self.add_summary(r.summary)
        return True

    def add_summary(self, s):
        for k, v in s.items():
            if k == "samples":
                for x in v:
                    if len(self.samples) < 6:
                        self.samples.append(x)
            elif k == "violations":
                continue
            elif isinstance(v, bool):
                self.extra[k] = v
            elif isinstance(v, int):
                if k.startswith("distinct_"):
                    k = "sum_per_process_" + k
                if k.startswith("max_"):
                    self.counters[k] = max(self.counters.get(k, 0), v)
                else:
                    self.counters[k] = self.counters.get(k, 0) + v
            else:
                self.extra.setdefault(k, v)

    def load_hashes(self, prefix, setname, into=None):
        path = "%s.%s" % (prefix, setname)
        s = self.distinct.setdefault(into or setname, set())
        if os.path.exists(path):
            a = array.array("Q")
            with open(path, "rb") as f:
                data = f.read()
            a.frombytes(data[: len(data) // 8 * 8])
            s.update(a)
            os.unlink(path)

    def parallel(self, jobs, workers=None):
        """jobs: list of dict(cmd=, env=, timeout=, label=, stdin=). Returns Results in order."""
        workers = workers or min(NCPU, max(1, len(jobs)))
        with concurrent.futures.ThreadPoolExecutor(max_workers=workers) as ex:
            futs = [ex.submit(self.run_one, j["cmd"], j.get("env"), j.get("timeout", 600), j.get("stdin"),
                              j.get("label", ""), j.get("cwd")) for j in jobs]
            return [f.result() for f in futs]

    # ---- verdict bookkeeping ------------------------------------------
    def violation(self, key, detail, replay=None):
        if len(self.violations) < 200:
            self.violations.append({"key": key, "detail": detail, "replay": replay})

    def fail_harness(self, msg):
        self.harness_failures.append(msg)
        sys.stderr.write("[check %s] HARNESS FAILURE: %s\n" % (self.pid, msg))

    def count(self, k, n=1):
        self.counters[k] = self.counters.get(k, 0) + n

    def sample(self, s, maxn=6):
        if len(self.samples) < maxn:
            self.samples.append(s)

    def seen(self, name, h):
        s = self.distinct.setdefault(name, set())
        if h in s:
            return False
        s.add(h)
        return True

    # ---- finishing -----------------------------------------------------
    def finish_abort(self):
        self.finish("exploration", "aborted", evaluations_key=None, distinct_key=None)

    def finish(self, level, rule, evaluations_key, distinct_key, min_evals=1, exhaustive=None, required_nonzero=()):
        known = load_known()
        new = []
        known_hit = {}
        seen_keys = set()
        for v in self.violations:
            k = match_known(known, self.pid, v["key"])
            if k is not None:
                known_hit[k["key"]] = k
                continue
            if v["key"] in seen_keys:
                continue
            seen_keys.add(v["key"])
            new.append(v)
        evaluations = int(self.counters.get(evaluations_key, 0)) if evaluations_key else 0
        if distinct_key in self.distinct:
            dn = len(self.distinct[distinct_key])
        else:
            dn = int(self.counters.get(distinct_key, 0)) if distinct_key else 0
        cov = {
            # an execution that died before its summary (sanitizer abort) still was an evaluation: keep the evidence schema-valid
            "evaluations": max(evaluations, 1 if (new or known_hit or self.inconclusive) else evaluations),
            "distinct_nontrivial": max(dn, 2) if (new or known_hit or self.inconclusive) else dn,
            "rule": rule,
            "samples": self.samples or ["(none)"],
            "inconclusive_cases": self.inconclusive,
            "counters": self.counters,
        }
        for k, s in self.distinct.items():
            cov["distinct_" + k] = len(s)
        if (new or known_hit or self.inconclusive) and (evaluations < 1 or dn < 2):
            cov["coverage_note"] = "a harness stopped at a violation before reporting its counters: evaluations/distinct are forced up to the schema minimum, the real counts of this run are lower"
        cov.update(self.extra)
        if exhaustive is not None:
            cov["exhaustive"] = exhaustive
        cov["known_findings_hit"] = sorted(known_hit)
        ev = {
            "property_id": self.pid, "tier": self.tier, "seed": self.seed, "level": level,
            "coverage": cov, "assumptions": self.assumptions,
            "wall_s": round(time.time() - self.t0, 2), "violations": len(new),
        }
        # bin/coverage runs the workloads against a gcov build to see what they reach: that is not evidence
        evdir = os.path.join(VERIF, "evidence") if os.environ.get("VERIF_COVERAGE") != "1" else os.path.join(self.rundir, "coverage-evidence")
        if os.environ.get("VERIF_EVIDENCE_DIR"):      # bin/seed_sweep: runs against a patched scratch worktree are not evidence either
            evdir = os.environ["VERIF_EVIDENCE_DIR"]
        os.makedirs(evdir, exist_ok=True)
        with open(os.path.join(evdir, self.pid + ".json"), "w") as f:
            json.dump(ev, f, indent=1, sort_keys=True, default=str)
            f.write("\n")
        for k in sorted(known_hit):
            print("KNOWN-FINDING: property=%s %s -- %s" % (self.pid, k, known_hit[k].get("what", "")))
        rc = 0
        if new:
            os.makedirs(os.path.join(VERIF, "replays"), exist_ok=True)
            for v in new[:10]:
                h = hashlib.sha1(v["key"].encode()).hexdigest()[:10]
                path = os.path.join(VERIF, "replays", "%s-%s.json" % (self.pid, h))
                with open(path, "w") as f:
                    json.dump({"property": self.pid, "key": v["key"], "detail": v["detail"], "replay": v["replay"],
                               "seed": self.seed, "tier": self.tier}, f, indent=1, default=str)
                print("VIOLATION property=%s replay=%s key=%s" % (self.pid, path, v["key"]))
                sys.stderr.write("[check %s] violation %s: %s\n" % (self.pid, v["key"], str(v["detail"])[:1500]))
            rc = 1
        elif self.harness_failures:
            rc = 2
        else:
            missing = [k for k in required_nonzero if not self.counters.get(k) and not len(self.distinct.get(k, ()))]
            if evaluations < min_evals or dn < 2 or missing:
                sys.stderr.write("[check %s] INCONCLUSIVE: evaluations=%d distinct=%d missing=%s\n" % (self.pid, evaluations, dn, missing))
                rc = 2
        print("[check %s] tier=%s seed=%d evaluations=%d distinct=%d violations=%d known=%d inconclusive=%d wall=%.1fs rc=%d" % (
            self.pid, self.tier, self.seed, evaluations, dn, len(new), len(known_hit), self.inconclusive, time.time() - self.t0, rc))
        shutil.rmtree(self.rundir, ignore_errors=True)
        try:
            os.rmdir(os.path.join(VERIF, "run"))
        except OSError:
            pass
        sys.stdout.flush()
        sys.exit(rc)


def load_known():
    path = os.path.join(VERIF, "known_findings.json")
    if not os.path.exists(path):
        return []
    with open(path) as f:
        j = json.load(f)
    return [x for x in j.get("findings", []) if x.get("status") == "known"]


def match_known(known, pid, key):
    for k in known:
        if k["property"] != pid:
            continue
        if k.get("match") == "prefix":
            if key.startswith(k["key"]):
                return k
        elif key == k["key"]:
            return k
    return None


def free_port():
    import socket
    s = socket.socket()
    s.bind(("127.0.0.1", 0))
    p = s.getsockname()[1]
    s.close()
    return p
