"""Process management for the vsrv harness and the raw-socket client used by the server-based checks."""
import json
import os
import select
import socket
import struct
import subprocess
import threading
import time

from . import common


def free_ports(n):
    """ports below the ephemeral range (client sockets of parallel workers bind ephemeral ports all the time)"""
    import random
    rnd = random.Random(os.getpid() * 7919 + int(time.time() * 1000))
    socks = []
    ports = []
    while len(ports) < n:
        p = rnd.randrange(10000, 30000)
        s = socket.socket()
        try:
            s.bind(("127.0.0.1", p))
        except OSError:
            s.close()
            continue
        socks.append(s)
        ports.append(p)
    for s in socks:
        s.close()
    return ports


class Server:
    SCRIPTS = ["/echo", "/aecho", "/writer", "/awriter", "/upload", "/rawup"]

    def __init__(self, basedir, exe, name, overrides=None, env=None):
        self.name = name
        self.dir = os.path.join(basedir, name)
        os.makedirs(self.dir, exist_ok=True)
        self.uploads = os.path.join(self.dir, "uploads")
        os.makedirs(self.uploads, exist_ok=True)
        self.lock = threading.Lock()
        last = None
        for attempt in range(5):
            last = self._start(exe, overrides, env)
            if last is None:
                return
        raise RuntimeError("vsrv did not start: %s" % last)

    def _start(self, exe, overrides, env):
        self.ports = {"http": free_ports(1)[0], "scgi": os.path.join(self.dir, "scgi.sock"), "fastcgi": os.path.join(self.dir, "fcgi.sock")}
        for k in ("scgi", "fastcgi"):
            try:
                os.unlink(self.ports[k])
            except OSError:
                pass
        cfg = {
            "service": {"list": [{"api": "http", "ip": "127.0.0.1", "port": self.ports["http"]},
                                 {"api": "scgi", "socket": self.ports["scgi"]},
                                 {"api": "fastcgi", "socket": self.ports["fastcgi"]}],
                        "worker_threads": 4},
            "http": {"script_names": self.SCRIPTS, "timeout": 5},
            "cache": {"backend": "thread_shared", "limit": 1000},
            "gzip": {"enable": True},
            "security": {"uploads_path": self.uploads, "content_length_limit": 256, "multipart_form_data_limit": 2048, "file_in_memory_limit": 65536},
            "logging": {"level": "error", "stderr": True},
        }
        _merge(cfg, overrides or {})
        self.cfg = cfg
        self.cfgfile = os.path.join(self.dir, "config.js")
        with open(self.cfgfile, "w") as f:
            json.dump(cfg, f)
        self.logfile = os.path.join(self.dir, "events.jsonl")
        self.errfile = os.path.join(self.dir, "stderr.txt")
        e = dict(os.environ)
        e.update(common.SAN_ENV)
        if env:
            e.update(env)
        self.cmd = [exe, "--config", self.cfgfile, "--log", self.logfile]
        self.proc = subprocess.Popen(self.cmd, stdin=subprocess.PIPE, stdout=subprocess.PIPE, stderr=open(self.errfile, "wb"), env=e, cwd=self.dir)
        line = self._readline(30)
        if line != "READY":
            self.proc.kill()
            self.proc.wait()
            return "no READY: %r / %s" % (line, self.stderr()[-500:])
        # wait until the acceptors listen (they bind inside service::run)
        t0 = time.time()
        while time.time() - t0 < 20:
            if self.proc.poll() is not None:
                return "died at start: %s" % self.stderr()[-300:]
            try:
                s = socket.create_connection(("127.0.0.1", self.ports["http"]), timeout=1)
                s.close()
                if os.path.exists(self.ports["fastcgi"]) and os.path.exists(self.ports["scgi"]):
                    return None
            except OSError:
                pass
            time.sleep(0.02)
        self.proc.kill()
        self.proc.wait()
        return "acceptors did not come up"

    def _readline(self, timeout):
        r, _, _ = select.select([self.proc.stdout], [], [], timeout)
        if not r:
            return None
        return self.proc.stdout.readline().decode().strip()

    def sched(self, local_port, r=None, w=None):
        msg = "S %d r:%s w:%s\n" % (local_port, ",".join(map(str, r or [])), ",".join(map(str, w or [])))
        with self.lock:
            try:
                self.proc.stdin.write(msg.encode())
                self.proc.stdin.flush()
            except (BrokenPipeError, OSError):
                return False
            return self._readline(10) == "K"

    def alive(self):
        return self.proc.poll() is None

    def stderr(self):
        try:
            return open(self.errfile, "rb").read().decode("utf-8", "replace")
        except OSError:
            return ""

    def events(self):
        out = []
        try:
            for line in open(self.logfile, "rb"):
                try:
                    out.append(json.loads(line))
                except ValueError:
                    pass
        except OSError:
            pass
        return out

    def wait_events(self, pred, timeout=10.0):
        """Follows the event log incrementally until pred(list of new+old matching events) is true; returns False on timeout.
        pred receives every event seen so far by this follower (kept in self._seen)."""
        if not hasattr(self, "_seen"):
            self._seen = []
            self._off = 0
            self._part = b""
        end = time.time() + timeout
        while True:
            try:
                with open(self.logfile, "rb") as f:
                    f.seek(self._off)
                    data = f.read()
                    self._off += len(data)
            except OSError:
                data = b""
            data = self._part + data
            lines = data.split(b"\n")
            self._part = lines.pop()
            for line in lines:
                try:
                    self._seen.append(json.loads(line))
                except ValueError:
                    pass
            if len(self._seen) > 4000:
                del self._seen[:2000]
            if pred(self._seen):
                return True
            if time.time() > end:
                return False
            time.sleep(0.002)

    def stop(self):
        if self.alive():
            try:
                with self.lock:
                    self.proc.stdin.write(b"Q\n")
                    self.proc.stdin.flush()
            except (BrokenPipeError, OSError):
                pass
            try:
                self.proc.wait(15)
            except subprocess.TimeoutExpired:
                self.proc.kill()
                self.proc.wait()
        return self.proc.returncode

    def death_report(self):
        """violation key + detail when the server process died or printed a sanitizer report"""
        err = self.stderr()
        kind, key = common.sanitizer_key(err)
        if key:
            return key, common.sanitizer_excerpt(err)
        m = None
        for line in err.splitlines():
            if "exception escaped service::run()" in line:
                m = line
        if m:
            return "server:exception-escaped-service-run:" + m.split("run():")[-1].strip()[:60].replace(" ", "-"), err[-2000:]
        rc = self.proc.poll()
        if rc is not None and rc != 0:
            return "server:died-rc-%d" % rc, err[-2000:]
        return None, None


def _merge(a, b):
    for k, v in b.items():
        if isinstance(v, dict) and isinstance(a.get(k), dict):
            _merge(a[k], v)
        else:
            a[k] = v


class Conn:
    """raw client connection with a known local port (so that the server-side shims can be scheduled for it)"""

    _next_id = {}

    def __init__(self, server, proto, r=None, w=None, timeout=10, rcvbuf=None):
        self.server = server
        if proto == "http":
            self.s = socket.socket(socket.AF_INET, socket.SOCK_STREAM)
            if rcvbuf:
                self.s.setsockopt(socket.SOL_SOCKET, socket.SO_RCVBUF, rcvbuf)
            self.s.setsockopt(socket.IPPROTO_TCP, socket.TCP_NODELAY, 1)
            self.s.setsockopt(socket.SOL_SOCKET, socket.SO_REUSEADDR, 1)
            for attempt in range(50):
                try:
                    self.s.bind(("127.0.0.1", 0))
                    break
                except OSError:
                    time.sleep(0.1)
            self.port = self.s.getsockname()[1]
            target = ("127.0.0.1", server.ports["http"])
        else:
            self.s = socket.socket(socket.AF_UNIX, socket.SOCK_STREAM)
            if rcvbuf:
                self.s.setsockopt(socket.SOL_SOCKET, socket.SO_RCVBUF, rcvbuf)
            pid = os.getpid()
            if pid not in Conn._next_id:
                Conn._next_id.clear()
                Conn._next_id[pid] = 100000 + (pid % 20000) * 100000
            Conn._next_id[pid] += 1
            self.port = Conn._next_id[pid]
            self.s.bind(b"\0vc%d" % self.port)
            target = server.ports[proto]
        if r or w:
            server.sched(self.port, r, w)
        self.s.settimeout(timeout)
        for attempt in range(20):
            try:
                self.s.connect(target)
                break
            except OSError as e:
                if attempt == 19 or not server.alive():
                    raise
                time.sleep(0.05)
        self.buf = b""

    def send(self, data):
        self.s.sendall(data)

    def send_pieces(self, data, cuts, pause=0.002):
        p = 0
        for c in list(cuts) + [len(data)]:
            if c > p:
                self.s.sendall(data[p:c])
                time.sleep(pause)
                p = c

    def half_close(self):
        try:
            self.s.shutdown(socket.SHUT_WR)
        except OSError:
            pass

    def reset(self):
        try:
            self.s.setsockopt(socket.SOL_SOCKET, socket.SO_LINGER, struct.pack("ii", 1, 0))
        except OSError:
            pass
        self.close()

    def recv_all(self, timeout=10, slow=None):
        """read until the peer closes; returns (data, closed_cleanly)"""
        self.s.settimeout(timeout)
        chunks = [self.buf]
        self.buf = b""
        closed = False
        try:
            while True:
                d = self.s.recv(65536 if not slow else slow)
                if not d:
                    closed = True
                    break
                chunks.append(d)
                if slow:
                    time.sleep(0.0005)
        except socket.timeout:
            pass
        except OSError:
            closed = True
        return b"".join(chunks), closed

    def recv_until(self, pred, timeout=10):
        """read until pred(buffer) returns a length to cut at (or peer closes)"""
        self.s.settimeout(timeout)
        try:
            while True:
                n = pred(self.buf)
                if n is not None:
                    out, self.buf = self.buf[:n], self.buf[n:]
                    return out, False
                d = self.s.recv(65536)
                if not d:
                    out, self.buf = self.buf, b""
                    return out, True
                self.buf += d
        except socket.timeout:
            out, self.buf = self.buf, b""
            return out, False
        except OSError:
            out, self.buf = self.buf, b""
            return out, True

    def close(self):
        try:
            self.s.close()
        except OSError:
            pass


def http_message_length(buf):
    """length of the first complete HTTP response in buf, or None"""
    he = buf.find(b"\r\n\r\n")
    if he < 0:
        return None
    head = buf[:he].lower()
    body_at = he + 4
    if b"transfer-encoding: chunked" in head:
        p = body_at
        while True:
            e = buf.find(b"\r\n", p)
            if e < 0:
                return None
            try:
                sz = int(buf[p:e], 16)
            except ValueError:
                return len(buf)
            p = e + 2
            if sz == 0:
                return p + 2 if len(buf) >= p + 2 else None
            if len(buf) < p + sz + 2:
                return None
            p += sz + 2
    i = head.find(b"content-length:")
    if i >= 0:
        e = head.find(b"\r\n", i)
        try:
            n = int(head[i + 15:e if e >= 0 else len(head)].strip())
        except ValueError:
            return len(buf)
        return body_at + n if len(buf) >= body_at + n else None
    return None  # close-delimited


def fcgi_message_length(buf):
    p = 0
    while p + 8 <= len(buf):
        _, rtype, _, clen, plen, _ = struct.unpack(">BBHHBB", buf[p:p + 8])
        if p + 8 + clen + plen > len(buf):
            return None
        p += 8 + clen + plen
        if rtype == 3:
            return p
    return None
