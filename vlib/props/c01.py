"""C01 - every front-end delivers the request the peer sent, however it is segmented."""
import concurrent.futures
import json
import os
import random
import time

from .. import proto, srv
from .. import standalone as sa

HDR_NAMES = [b"X-A", b"X-Custom-Header", b"Accept", b"Accept-Language", b"User-Agent", b"Referer", b"X-Forwarded-For", b"If-None-Match", b"x-lower", b"X-UPPER-CASE", b"Authorization"]
HDR_VALUES = [b"v", b"text/html, */*;q=0.8", b"Mozilla/5.0 (X11; Linux) Gecko", b"\"quoted value\"", b"\"a \\\"b\\\" c\"", b"a=b; c=\"d e\"", b"(comment) token", b"en-US,en;q=0.5", b"W/\"etag-1\"",
              b"1.2.3.4, 5.6.7.8", b"x" * 300, b"with  two spaces", b"tab\there", b"Basic dXNlcjpwYXNz", b"non-ascii \xc3\xa9\xff",
              b"http://x/y_(z", b"sad :-( face", b"5\" screen", b"unbalanced ) and (", b"((",
              b"\"C:\\dir\\", b"http://x/(a\\", b"ends with a backslash\\", b"\"q\\"]
SEG = [b"a", b"seg", b"with space", b"pl+us", b"per%cent", b"uni\xc3\xa9", b"\xff\xfe", b"semi;colon", b"q?mark", b"amp&", b"eq=", b"~tilde-._", b"hash#", b"quote\"", b"paren(", b"a.b", b"..", b".", b"x" * 60]


def gen_req(rnd, script, idx):
    method = rnd.choice([b"GET", b"GET", b"POST", b"POST", b"PUT", b"DELETE", b"OPTIONS", b"PATCH"])
    nseg = rnd.choice([0, 0, 1, 2, 3, 5])
    path = b""
    for _ in range(nseg):
        path += b"/" + rnd.choice(SEG)
    if nseg and rnd.random() < 0.2:
        path += b"/"
    query = None
    if rnd.random() < 0.7:
        pairs = []
        for _ in range(rnd.choice([0, 1, 2, 4])):
            k = rnd.choice([b"a", b"key", b"k%20x", b"tok", b"a"])
            v = rnd.choice([b"1", b"", b"x+y", b"%41%zz", b"%C3%A9", b"a%3Db%26c", b"v" * 50])
            pairs.append(k + b"=" + v)
        query = b"&".join(pairs)
    headers = []
    used = set()
    for _ in range(rnd.choice([0, 1, 2, 4, 8])):
        n = rnd.choice(HDR_NAMES)
        if n.upper() in used:
            continue
        used.add(n.upper())
        headers.append((n, rnd.choice(HDR_VALUES)))
    if rnd.random() < 0.2:
        # a long value: the connection's string pool gives values above 1 KiB a page of their own, and a kept-alive connection reuses the pool
        headers.append((b"X-Long-Value", bytes([rnd.choice(b"abcdefgh")]) * rnd.choice([1023, 1024, 1025, 1100, 1500, 2040, 2047, 2048, 3000, 5000])))
    cookies = []
    if rnd.random() < 0.4:
        wire = []
        for i in range(rnd.choice([1, 2, 3])):
            v = rnd.choice([b"1", b"abc", b"a%20b", b"", b"x-y_z.~", b"two words", b"semi;colon", b"com,ma", b"q\"uote",
                            b"YWJj/ZGVm+Zw==", b"t=x:y", b"user@host", b"q?z=1&w", b"[1]{2}(3)<4>", b"a/b/c", b"!#$%&'*+-.^_`|~"])    # RFC 6265 cookie-octets
            cookies.append((b"c%d" % i, v))
            if any(c in v for c in b" ;,\""):
                wire.append(b"c%d=\"" % i + v.replace(b"\\", b"\\\\").replace(b"\"", b"\\\"") + b"\"")     # quoted-string form
            else:
                wire.append(b"c%d=" % i + v)
        headers.append((b"Cookie", rnd.choice([b"; ", b"; ", b";", b", ", b" ;  "]).join(wire)))
    body = b""
    ctype = None
    form = None
    if method in (b"POST", b"PUT", b"PATCH"):
        kind = rnd.random()
        if kind < 0.45:
            form = []
            for _ in range(rnd.choice([0, 1, 2, 5])):
                k = rnd.choice([b"f", b"name", b"a b", b"k\xc3\xa9", b"f"])
                v = bytes(rnd.getrandbits(8) for _ in range(rnd.choice([0, 1, 5, 40])))
                form.append((k, v))
            body = b"&".join(proto.pct_encode(k, keep=b"", rnd=rnd).replace(b"%20", b"+" if rnd.random() < 0.5 else b"%20") + b"=" + proto.pct_encode(v, keep=b"", rnd=rnd) for k, v in form)
            ctype = rnd.choice([b"application/x-www-form-urlencoded", b"application/x-www-form-urlencoded; charset=UTF-8", b"Application/X-WWW-Form-UrlEncoded"])
        elif kind < 0.9:
            n = rnd.choice([0, 1, 2, 17, 100, 1000, 5000, 70000])
            body = bytes(rnd.getrandbits(8) for _ in range(min(n, 3000))) * (1 if n <= 3000 else n // 3000)
            ctype = rnd.choice([b"application/octet-stream", b"text/plain", None])
    r = proto.Req(method=method, script=script, path_info=path, query=query, headers=headers, body=body, content_type=ctype, token=b"T%d" % idx)
    r.form = form
    r.cookie_list = cookies
    return r


def hx(s):
    return bytes.fromhex(s)


def check_echo(r, echo, where, viol):
    """compares what the application saw with what the peer encoded"""
    exp = r.expected()
    for f in ("method", "script_name", "path_info", "query_string", "content_type"):
        got = hx(echo[f])
        if got != exp[f]:
            viol("c01:%s-differs:%s" % (f.replace("_", "-"), where), "sent %r application saw %r" % (exp[f], got))
            return False
    if echo["content_length"] != len(r.body):
        viol("c01:content-length-differs:" + where, "%r vs %d" % (echo["content_length"], len(r.body)))
        return False
    env = {hx(k): hx(v) for k, v in echo["env"].items()}
    for n, v in r.cgi_headers():
        want = v.replace(b"\r\n", b"")
        if env.get(n) != want:
            viol("c01:header-differs:" + where, "%r sent %r application saw %r" % (n, want, env.get(n)))
            return False
    get = [(hx(a), hx(b)) for a, b in echo["get"]]
    wantget = proto.parse_form(r.query or b"")
    if wantget is None:
        wantget = []
    if sorted(get) != sorted(wantget) or [k for k, _ in get] != sorted(k for k, _ in get):
        viol("c01:get-fields-differ:" + where, "query %r application saw %r" % (r.query, get))
        return False
    post = [(hx(a), hx(b)) for a, b in echo["post"]]
    if r.form is not None:
        if sorted(post) != sorted(r.form):
            viol("c01:post-fields-differ:" + where, "sent %r application saw %r" % (r.form[:4], post[:4]))
            return False
        # equal keys keep their order
        for key in set(k for k, _ in r.form):
            if [v for k, v in post if k == key] != [v for k, v in r.form if k == key]:
                viol("c01:post-field-order-differs:" + where, repr(key))
                return False
    elif post:
        viol("c01:post-fields-invented:" + where, repr(post[:3]))
        return False
    cookies = dict((hx(a), hx(b)) for a, b in echo["cookies"])
    if cookies != dict(r.cookie_list):
        viol("c01:cookies-differ:" + where, "sent %r application saw %r" % (r.cookie_list, cookies))
        return False
    if echo["raw_len"] != len(r.body) or ("raw" in echo and hx(echo["raw"]) != r.body):
        viol("c01:raw-body-differs:" + where, "len %d vs %d" % (echo["raw_len"], len(r.body)))
        return False
    if len(r.body) > 4096 and int(echo["raw_hash"]) != fnv(r.body):
        viol("c01:raw-body-differs:" + where, "hash")
        return False
    return True


def fnv(b):
    h = 1469598103934665603
    for c in b:
        h ^= c
        h = (h * 1099511628211) & 0xFFFFFFFFFFFFFFFF
    return h


def projection(echo):
    e = dict(echo)
    e.pop("nmain", None)
    e.pop("app", None)
    env = e.pop("env")
    e["env"] = {k: v for k, v in env.items() if hx(k).startswith((b"HTTP_", b"CONTENT_", b"REQUEST_METHOD", b"PATH_INFO", b"SCRIPT_NAME", b"QUERY_STRING")) and hx(k) not in (b"HTTP_HOST", b"HTTP_CONNECTION", b"CONTENT_LENGTH", b"QUERY_STRING")}
    return json.dumps(e, sort_keys=True)


def roundtrip(S, protoname, data, r_sched, nresp=1, keep=False):
    """sends data on a fresh connection and returns the list of de-framed application bodies (or None) plus the raw bytes"""
    c = srv.Conn(S, protoname, r=r_sched)
    try:
        c.send(data)
        outs = []
        if protoname == "http" and keep:
            for _ in range(nresp):
                msg, closed = c.recv_until(srv.http_message_length, timeout=15)
                outs.append(proto.http_parse_response(msg))
                if closed:
                    break
        elif protoname == "fastcgi" and keep:
            for i in range(nresp):
                msg, closed = c.recv_until(srv.fcgi_message_length, timeout=15)
                outs.append(msg)
                if closed:
                    break
        else:
            raw, closed = c.recv_all(15)
            outs.append(proto.http_parse_response(raw) if protoname == "http" else (proto.cgi_parse_response(raw) if protoname == "scgi" else raw))
        return outs
    finally:
        c.close()


def body_of(protoname, out, reqid=1):
    if protoname == "fastcgi":
        res = proto.fcgi_parse_response(out, reqid)
        if res["errors"] or res["end"] != (0, 0):
            return None, "fastcgi framing: %r end=%r" % (res["errors"], res["end"])
        out = res["cgi"]
    if out["errors"] or out["status"] != 200:
        return None, "status %r errors %r" % (out["status"], out["errors"])
    try:
        return json.loads(out["body"].decode("latin-1")), None
    except ValueError:
        return None, "application body is not the echo document: %r" % out["body"][:80]


def cuts_to_sched(cuts, n):
    out = []
    p = 0
    for c in sorted(set(cuts)):
        if 0 < c < n and c > p:
            out.append(c - p)
            p = c
    return out


LONG_VALUES = [127, 128, 129, 255, 256, 257, 1000, 4000, 4090, 4095, 4096, 4097, 4100, 8190, 8191, 8192, 8193, 12000, 15000]   # every front-end caps the header block at 16384 bytes


def count_sweep(S, rnd, windex, limit, cnt, res, prefix="c01", kinds=("headers", "query", "cookies", "form")):
    """requests with exactly k header lines / query fields / cookies / form fields for every k up to the limit (the workers share
    the range): element counts are where tables grow, and each count is a well-formed request that must be delivered like any other"""
    for k in range(windex, limit, 16):
        for what in kinds:
            r = proto.Req(method=b"POST" if what == "form" else b"GET", script=rnd.choice([b"/echo", b"/aecho"]), path_info=b"/sweep", token=b"S%d" % k)
            r.form = None
            r.cookie_list = []
            if what == "headers":
                r.headers = [(b"X-Sweep-%d" % i, b"v%d" % i) for i in range(k)]
            elif what == "query":
                r.query = b"&".join(b"q%03d=%d" % (i, i) for i in range(k))
            elif what == "cookies":
                if k:
                    r.cookie_list = [(b"c%d" % i, b"%d" % i) for i in range(k)]
                    r.headers = [(b"Cookie", b"; ".join(n + b"=" + v for n, v in r.cookie_list))]
            else:
                r.form = [(b"f%03d" % i, b"%d" % i) for i in range(k)]
                r.body = b"&".join(a + b"=" + b for a, b in r.form)
                r.content_type = b"application/x-www-form-urlencoded"
            if what == "headers" and k < len(LONG_VALUES):
                # one long header value as well: lengths around the read-buffer and record sizes
                r.headers.append((b"X-Long", b"L" * LONG_VALUES[k]))
            for pn in ("http", "scgi", "fastcgi"):
                data = proto.http_encode(r) if pn == "http" else proto.scgi_encode(r) if pn == "scgi" else proto.fcgi_encode(r)
                where = pn + "-count-sweep"
                rp = {"proto": pn, "bytes": data[:6000].hex(), "len": len(data), "sweep": what, "count": k}

                def viol(key, detail, rp=rp):
                    res["viol"].append({"key": key, "detail": "%s (request with exactly %d %s)" % (detail, k, what), "replay": rp})
                outs = roundtrip(S, pn, data, [])
                echo, err = body_of(pn, outs[0])
                cnt("sweep_requests")
                if echo is None:
                    viol(prefix + ":well-formed-request-not-answered:" + where, err)
                    return
                if not check_echo(r, echo, where, viol):
                    return


def nul_in_path_probe(S, rnd, windex, cnt, res):
    """%00 in the URL path (only HTTP can carry it): the application must see the path the peer encoded, or the request is refused -
    never a path cut short at the NUL byte"""
    for app in (b"/echo", b"/aecho"):
        tail = rnd.choice([b"zzz", b"/../x", b""])
        wire = app + b"/adm%00" + tail
        c = srv.Conn(S, "http")
        try:
            c.send(b"GET " + wire + b" HTTP/1.0\r\nHost: localhost\r\nX-Token: N%d\r\n\r\n" % windex)
            raw, _ = c.recv_all(10)
        finally:
            c.close()
        d = proto.http_parse_response(raw)
        cnt("nul_path_probes")
        if d["status"] == 200:
            try:
                echo = json.loads(d["body"].decode("latin-1"))
            except ValueError:
                continue
            got = hx(echo["path_info"])
            if got != b"/adm\0" + tail:
                res["viol"].append({"key": "c01:path-info-differs:http-nul-byte", "detail": "sent %r, application saw PATH_INFO %r" % (wire, got), "replay": {"proto": "http", "wire": wire.decode()}})
                return


def chunked_request_probe(S, rnd, windex, cnt, res):
    """a request body sent with Transfer-Encoding: chunked (legal HTTP/1.1): delivered exactly, or refused - never served without it"""
    for app in (b"/echo", b"/aecho"):
        body = bytes(rnd.getrandbits(8) for _ in range(rnd.choice([1, 3, 100, 5000])))
        chunks = b""
        p = 0
        while p < len(body):
            n = rnd.choice([1, 2, 16, 1000])
            chunks += b"%x\r\n" % len(body[p:p + n]) + body[p:p + n] + b"\r\n"
            p += n
        chunks += b"0\r\n\r\n"
        wire = b"POST " + app + b"/chunked HTTP/1.1\r\nHost: localhost\r\nX-Token: CH%d\r\nContent-Type: application/octet-stream\r\nTransfer-Encoding: chunked\r\nConnection: close\r\n\r\n" % windex + chunks
        c = srv.Conn(S, "http")
        try:
            c.send(wire)
            raw, _ = c.recv_all(10)
        finally:
            c.close()
        d = proto.http_parse_response(raw)
        cnt("chunked_request_probes")
        if d["status"] == 200:
            try:
                echo = json.loads(d["body"].decode("latin-1"))
            except ValueError:
                continue
            if echo["raw_len"] != len(body) or ("raw" in echo and hx(echo["raw"]) != body):
                res["viol"].append({"key": "c01:raw-body-differs:http-chunked-request", "detail": "a %d-byte body sent with Transfer-Encoding: chunked was served (status 200) with the application seeing %d body bytes" % (len(body), echo["raw_len"]), "replay": {"proto": "http", "bytes": wire[:3000].hex()}})
                return


def keepalive_value_sweep(S, rnd, windex, cnt, res, prefix="c01"):
    """two or three requests on one kept-alive connection (http keep-alive, fastcgi keep_conn) where an early one carries a header value
    of a given length and a later one more header bytes than that: per-connection buffers and pools are reused between the requests"""
    lengths = [500, 1023, 1024, 1025, 1026, 1100, 1300, 1500, 1800, 2040, 2046, 2047, 2048, 2049, 3000, 4095, 4096, 5000, 8000]
    for li in range(windex % 4, len(lengths), 4):
        L = lengths[li]
        for pn in ("http", "fastcgi"):
            first = proto.Req(method=b"GET", script=rnd.choice([b"/echo", b"/aecho"]), path_info=b"/ka1", headers=[(b"X-Early", b"e" * rnd.choice([0, 10, 300]))] * (1 if windex % 2 else 0) + [(b"X-Long", b"L" * L)], token=b"K%da" % L)
            second = proto.Req(method=b"GET", script=rnd.choice([b"/echo", b"/aecho"]), path_info=b"/ka2", headers=[(b"X-B%d" % i, b"b" * 100) for i in range(rnd.choice([12, 25, 40]))], token=b"K%db" % L)
            third = proto.Req(method=b"GET", script=b"/echo", path_info=b"/ka3", headers=[(b"X-C", b"c" * rnd.choice([1, 1500]))], token=b"K%dc" % L)
            reqs = [first, second, third]
            for q in reqs:
                q.form = None
                q.cookie_list = []
            if pn == "http":
                blob = b"".join(proto.http_encode(q, version=b"1.1", keep_alive=True) for q in reqs)
            else:
                blob = b"".join(proto.fcgi_encode(q, reqid=1, keep_conn=True) for q in reqs)
            outs = roundtrip(S, pn, blob, [], nresp=3, keep=True)
            cnt("keepalive_value_sweep_connections")
            for j, q in enumerate(reqs):
                rp = {"proto": pn + "-keepalive", "bytes": blob[:8000].hex(), "first_value_length": L}
                if j >= len(outs):
                    res["viol"].append({"key": prefix + ":pipelined-request-not-answered:" + pn, "detail": "request %d of 3 after a %d-byte header value in the first" % (j + 1, L), "replay": rp})
                    return
                echo, err = body_of(pn, outs[j])
                if echo is None:
                    res["viol"].append({"key": prefix + ":pipelined-request-not-answered:" + pn, "detail": "request %d of 3 after a %d-byte header value in the first: %s" % (j + 1, L, err), "replay": rp})
                    return
                if not check_echo(q, echo, pn + "-keepalive", lambda key, detail, rp=rp: res["viol"].append({"key": key, "detail": "request %d of 3 (first carried a %d-byte value): %s" % (j + 1, L, detail), "replay": rp})):
                    return


def worker(args):
    basedir, exe, seed, ncases, windex = args
    rnd = random.Random(seed)
    res = {"viol": [], "counters": {}, "samples": [], "distinct": set(), "offsets": {"http": set(), "scgi": set(), "fastcgi": set()}, "fail": None}

    def cnt(k, n=1):
        res["counters"][k] = res["counters"].get(k, 0) + n
    S = None
    try:
        S = srv.Server(basedir, exe, "srv%d" % windex, overrides={"security": {"content_length_limit": 1024}})
        t_end = time.time() + 3600
        count_sweep(S, rnd, windex, 140 if ncases < 50 else 560, cnt, res)
        if not res["viol"]:
            keepalive_value_sweep(S, rnd, windex, cnt, res)
        if not res["viol"]:
            nul_in_path_probe(S, rnd, windex, cnt, res)
        if not res["viol"]:
            chunked_request_probe(S, rnd, windex, cnt, res)
        for ci in range(ncases):
            if time.time() > t_end or res["viol"]:
                break
            script = rnd.choice([b"/echo", b"/aecho"])
            r = gen_req(rnd, script, ci)
            encs = {
                "http": proto.http_encode(r, version=rnd.choice([b"1.0", b"1.1"]), rnd=random.Random(seed * 7 + ci), fold=True),
                "scgi": proto.scgi_encode(r, rnd=random.Random(seed * 11 + ci)),
                "fastcgi": proto.fcgi_encode(r, rnd=random.Random(seed * 13 + ci)),
            }
            proj = {}
            for pn, data in encs.items():
                where = pn + ("-async" if script == b"/aecho" else "-sync")
                rp = {"proto": pn, "bytes": data[:6000].hex(), "len": len(data)}

                def viol(key, detail, rp=rp):
                    res["viol"].append({"key": key, "detail": detail, "replay": rp})
                n = len(data)
                head = n - len(r.body)
                scheds = [[]]
                if head <= 300:
                    ks = list(range(1, min(n, head + 3)))
                else:
                    ks = sorted(set(rnd.randrange(1, n) for _ in range(24)) | {head - 1, head, head + 1, head - 2, head - 4})
                if windex % 2 and len(ks) > 60:
                    ks = rnd.sample(ks, 60)
                scheds += [[k] for k in ks if 0 < k < n]
                for _ in range(12):
                    scheds.append(cuts_to_sched([rnd.randrange(1, n) for _ in range(rnd.choice([2, 2, 3, 5]))], n))
                scheds.append([1] * min(n, 400))
                scheds.append([rnd.choice([1, 2, 3, 7]) for _ in range(min(n, 200))])
                base = None
                for sc in scheds:
                    outs = roundtrip(S, pn, data, sc)
                    echo, err = body_of(pn, outs[0])
                    cnt("cases")
                    cnt("cases_" + pn)
                    rp["sched"] = sc[:50]
                    if echo is None:
                        viol("c01:well-formed-request-not-answered:" + where, err)
                        break
                    if base is None:
                        if not check_echo(r, echo, where, viol):
                            break
                        base = projection(echo)
                        proj[pn] = base
                    elif projection(echo) != base:
                        viol("c01:result-depends-on-segmentation:" + where, "read sizes %r" % sc[:20])
                        break
                    off = 0
                    for x in sc[:3]:
                        off += x
                        res["offsets"][pn].add(off)
                    res["distinct"].add(hash((pn, ci, tuple(sc[:8]))))
                if res["viol"]:
                    break
            if res["viol"]:
                break
            vals = set(proj.values())
            if len(vals) > 1:
                diff = []
                pj = {k: json.loads(v) for k, v in proj.items()}
                for fld in pj["http"]:
                    vals2 = set(json.dumps(pj[k].get(fld), sort_keys=True) for k in pj)
                    if len(vals2) > 1:
                        if fld == "env":
                            for ek in set().union(*[set(pj[k]["env"]) for k in pj]):
                                ev = {k: pj[k]["env"].get(ek) for k in pj}
                                if len(set(ev.values())) > 1:
                                    diff.append("env[%r]: %r" % (hx(ek), {k: (hx(v) if v is not None else None) for k, v in ev.items()}))
                        else:
                            diff.append("%s: %r" % (fld, {k: pj[k].get(fld) for k in pj}))
                res["viol"].append({"key": "c01:front-ends-disagree", "detail": "; ".join(diff)[:1500], "replay": {"http": encs["http"][:4000].hex()}})
                break
            cnt("requests")
            if ci < 2:
                res["samples"].append({"http_request": encs["http"][:300].decode("latin-1"), "segmentations_tried": len(scheds)})
            # keep-alive / pipelining
            if ci % 3 == 0:
                k = rnd.choice([2, 3, 6])
                reqs = [gen_req(rnd, rnd.choice([b"/echo", b"/aecho"]), ci * 100 + j) for j in range(k)]
                blob = b"".join(proto.http_encode(q, version=b"1.1", keep_alive=True, rnd=random.Random(j)) for j, q in enumerate(reqs))
                sc = cuts_to_sched([rnd.randrange(1, len(blob)) for _ in range(rnd.choice([0, 3, 8]))], len(blob))
                outs = roundtrip(S, "http", blob, sc, nresp=k, keep=True)
                cnt("keepalive_sequences")
                for j, q in enumerate(reqs):
                    rp = {"proto": "http-keepalive", "bytes": blob[:8000].hex(), "sched": sc}
                    if j >= len(outs):
                        res["viol"].append({"key": "c01:pipelined-request-not-answered:http", "detail": "request %d of %d" % (j + 1, k), "replay": rp})
                        break
                    echo, err = body_of("http", outs[j])
                    if echo is None:
                        res["viol"].append({"key": "c01:pipelined-request-not-answered:http", "detail": err, "replay": rp})
                        break
                    if not check_echo(q, echo, "http-keepalive", lambda key, detail, rp=rp: res["viol"].append({"key": key, "detail": "request %d of %d: %s" % (j + 1, k, detail), "replay": rp})):
                        break
                    cnt("keepalive_requests")
                    res["counters"]["max_keepalive_depth"] = max(res["counters"].get("max_keepalive_depth", 0), j + 1)
                # FastCGI KEEP_CONN, pipelined in one send
                blob = b"".join(proto.fcgi_encode(q, reqid=j + 1, keep_conn=True, rnd=random.Random(j)) for j, q in enumerate(reqs))
                sc = cuts_to_sched([rnd.randrange(1, len(blob)) for _ in range(rnd.choice([0, 3, 8]))], len(blob))
                outs = roundtrip(S, "fastcgi", blob, sc, nresp=k, keep=True)
                for j, q in enumerate(reqs):
                    rp = {"proto": "fastcgi-keepconn", "bytes": blob[:8000].hex(), "sched": sc}
                    if j >= len(outs):
                        res["viol"].append({"key": "c01:pipelined-request-not-answered:fastcgi", "detail": "request %d of %d" % (j + 1, k), "replay": rp})
                        break
                    echo, err = body_of("fastcgi", outs[j], reqid=j + 1)
                    if echo is None:
                        res["viol"].append({"key": "c01:pipelined-request-not-answered:fastcgi", "detail": err, "replay": rp})
                        break
                    if not check_echo(q, echo, "fastcgi-keepconn", lambda key, detail, rp=rp: res["viol"].append({"key": key, "detail": detail, "replay": rp})):
                        break
                    cnt("keepalive_requests")
        rc = S.stop()
        key, detail = S.death_report()
        if key:
            res["viol"].append({"key": key, "detail": detail, "replay": None})
        # what the shim really did
        seqs = set()
        for e in S.events():
            if e.get("ev") == "io":
                seqs.add(tuple(e["reads"][:6]))
        res["counters"]["distinct_read_size_sequences"] = len(seqs)
    except Exception as e:  # harness failure
        import traceback
        res["fail"] = "%r\n%s\n%s" % (e, traceback.format_exc()[-1500:], S.stderr()[-800:] if S else "")
        if S:
            S.stop()
    res["distinct"] = len(res["distinct"])
    res["offsets"] = {k: len(v) for k, v in res["offsets"].items()}
    return res


def run_workers(ck, fn, argslist):
    with concurrent.futures.ProcessPoolExecutor(max_workers=min(16, len(argslist))) as ex:
        results = list(ex.map(fn, argslist))
    for r in results:
        if r.get("fail"):
            ck.fail_harness(r["fail"])
        for v in r["viol"]:
            ck.violation(v["key"], v["detail"], v.get("replay"))
        for k, v in r["counters"].items():
            if k.startswith("max_"):
                ck.counters[k] = max(ck.counters.get(k, 0), v)
            else:
                ck.counters[k] = ck.counters.get(k, 0) + v
        for s in r["samples"]:
            ck.sample(s)
    return results


def run(ck):
    exe = ck.build("asan", ["vsrv"])["vsrv"]
    thorough = ck.tier == "thorough"
    n = int((1200 if thorough else 5) * ck.scale)
    # the header tokenizer alone, every single cut: in-process, thousands of header blocks per second
    hdr = ck.build("asan", ["hdr_mon"])["hdr_mon"]
    sa.run_jobs(ck, [dict(exe=hdr, args=["--cases", int((60000 if thorough else 1500) * ck.scale), "--seed", sa.subseed(ck, 900 + i)], label="hdr%d" % i, timeout=7200) for i in range(4)], sets=("blocks",))
    args = [(ck.rundir, exe, sa.subseed(ck, i), n, i) for i in range(16)]
    results = run_workers(ck, worker, args)
    ck.counters["distinct_cases"] = sum(r["distinct"] for r in results)
    for pn in ("http", "scgi", "fastcgi"):
        ck.counters["split_offsets_" + pn] = max(r["offsets"][pn] for r in results)
    ck.assumptions += [
        "the abstract request is a CGI-level description; SCGI and FastCGI carry it verbatim, the HTTP text is produced by an independent encoder and mapped back by a reference CGI mapping (header name canonicalisation, LWS folding, "
        "script-name split, percent-decoding of the path only, urlencoded form and cookie parsing)",
        "segmentation is imposed on the server side by a link-time readv() shim following a per-connection schedule (short reads are always legal on a stream socket); the sizes actually returned are logged",
        "generated requests keep quotes and parentheses balanced in the request line and header values (the header tokenizer of the embedded server treats them as quoted-string/comment delimiters); NUL bytes are excluded (CGI variables are C strings)",
    ]
    ck.finish("exploration",
              "abstract requests (8 methods, percent-escaped path segments incl. space/+/%%/non-UTF-8, raw query strings, 0..8 headers with quoted/comment/folded values, cookies, urlencoded and raw bodies to 70 KB) encoded for "
              "HTTP/1.0+1.1, SCGI and FastCGI (random record sizes, padding, 1- and 4-byte lengths) and sent to sync and async applications under: no split, every single split point of the header block, 12 random multi-splits, "
              "1-byte reads, tiny reads; echo compared with the reference mapping, across segmentations and across front-ends; HTTP keep-alive and FastCGI KEEP_CONN sequences of 2..6 pipelined requests. "
              "non-trivial = distinct (protocol, request, read-size prefix) cases",
              "cases", "distinct_cases", min_evals=3000,
              required_nonzero=("cases_http", "cases_scgi", "cases_fastcgi", "keepalive_requests", "segmentations", "blocks_complete", "distinct_read_size_sequences", "split_offsets_http", "split_offsets_fastcgi"))
