"""C17 - every scheduled handler runs exactly once: posts, timers, I/O waits, pool jobs."""
from .. import standalone as sa


def run(ck):
    tsan = ck.build("tsan", ["aio_mon"])["aio_mon"]
    asan = ck.build("asan", ["aio_mon"])["aio_mon"]
    thorough = ck.tier == "thorough"
    k = (30 if thorough else 1) * ck.scale
    jobs = []
    for i in range(10):
        jobs.append(dict(exe=tsan, args=["--mode", "all", "--rounds", int(2 * k), "--actions", 300, "--producers", 6, "--yield", [0, 30, 100, 250][i % 4], "--seed", sa.subseed(ck, i)], label="tsan%d" % i, timeout=14400))
    for i in range(6):
        jobs.append(dict(exe=asan, args=["--mode", "all", "--rounds", int(3 * k), "--actions", 500, "--producers", 8, "--yield", [0, 60, 200][i % 3], "--seed", sa.subseed(ck, 30 + i)], label="asan%d" % i, timeout=14400))
    # the loop's slot PRNG starts from uninitialised memory, which ASan fills with a constant: the timer-id reuse scenario needs the plain flavor
    plain = ck.build("plain", ["aio_mon"])["aio_mon"]
    for i in range(4):
        jobs.append(dict(exe=plain, args=["--mode", "reuse", "--rounds", int(15 * k), "--seed", sa.subseed(ck, 60 + i)], label="reuse%d" % i, timeout=14400))
    sa.run_jobs(ck, jobs, sets=("shapes",))
    c = ck.counters
    c["units_total"] = c.get("handlers_registered", 0) + c.get("jobs_posted", 0)
    ck.inconclusive += c.get("loop_scenarios_inconclusive", 0) + c.get("pool_scenarios_inconclusive", 0) + c.get("overtake_inconclusive", 0) + c.get("near_deadline_inconclusive", 0)
    ck.assumptions += [
        "caller contract respected by the workload: at most one pending readable and one pending writeable wait per descriptor in the multi-threaded scenarios (a separate single-threaded scenario arms 2..3 waits of one kind on a descriptor: each handler must still run exactly once); deadline_timer/stream_socket objects are used by one thread at a time (only io_service members are documented thread-safe); "
        "a raw timer id is cancelled by its owner only",
        "lost handlers are decided by ordering: the dispatch queue is FIFO, cancellations enqueue before the sentinels, the sentinel timer is later than every must-fire deadline; only the wait for the sentinels is under a wall-clock watchdog",
        "stop() racing with post() is not asserted beyond at-most-once (the property conditions exactly-once on the loop continuing)",
    ]
    ck.finish("exploration",
              "for each reactor {epoll, poll, select}: one loop thread and 1..8 producer threads posting handlers, arming timers (past, equal, near, far), cancelling them (far: always, near: racing with expiry), arming readable/writeable waits on "
              "socket pairs, cancelling them before/after readiness, closing devices with pending waits; a producer closing a descriptor with a wait pending and arming the socket that takes its number (not under ThreadSanitizer); inside one handler: cancel + close of a descriptor whose number a new socket takes at once and arms (the cancelled wait must hear the cancellation, not the new socket's event); cppcms::thread_pool with 1..6 workers and posters, cancelling and throwing jobs; seeded yield points inside the loop and the "
              "worker; every handler carries a unique id and the offline checker requires exactly one run, on the loop thread, with success/canceled as allowed and never before the deadline; ThreadSanitizer and ASan builds. "
              "non-trivial = distinct (reactor, producers, registered handlers) scenario shapes",
              "units_total", "shapes", min_evals=20000,
              required_nonzero=("slot_reuse_scenarios", "outcome_io_cancel_race_success", "outcome_io_cancel_race_canceled", "outcome_timer_fire_success",
                                "outcome_timer_cancel_far_canceled", "outcome_io_readable_success", "jobs_cancelled", "jobs_ran", "jobs_throwing", "object_scenarios", "loop_scenarios", "pool_scenarios", "overtake_iterations", "double_wait_scenarios", "fd_reuse_scenarios", "descriptors_closed_with_a_pending_wait_and_reopened", "near_deadline_groups", "rearm_scenarios", "hangup_cases", "prerun_scenarios", "yields_taken"))
