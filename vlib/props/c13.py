"""C13 - the built-in file server never serves anything outside its document roots."""
import os
import random
import re

from .. import common, proto, srv
from .. import standalone as sa
from . import c01

SPECIAL = "we<ird>&'\"name.txt"


def build_sandbox(base):
    """returns dict marker -> (area, relpath)"""
    markers = {}

    def put(area, rel, extra=""):
        p = os.path.join(base, area, rel)
        os.makedirs(os.path.dirname(p), exist_ok=True)
        m = ("MARK{%s|%s}" % (area, rel)).encode("utf-8")
        with open(p, "wb") as f:
            f.write(m)
        markers[m] = (area, rel)
        return p
    for rel in ("a.txt", "sub/b.txt", "sub/.hidden", "sub/deep/c.txt", ".dotfile", "sp ace.txt", SPECIAL, "alx/inroot.txt", "list/one.txt", "list/.secret", "list/" + SPECIAL,
                "withindex/index.html", "withindex/other.txt", "per%cent.txt", "pl+us.txt", "utfé.txt", "sub/deep/deeper/d.txt", "al"):
        put("root", rel)
    put("root2", "r2.txt")
    put("root2", "sub/b.txt")
    # siblings whose names have a root's name as a string prefix, reached through symbolic links (a containment test on the
    # resolved path must compare whole path components)
    put("root2", "via_link.txt")
    put("root2", "linkdir/inner2.txt")
    put("alias_target2", "x2.txt")
    put("alias_target", "at.txt")
    put("alias_target", "sub/as.txt")
    put("alias2", "x.txt")
    put("outside", "secret.txt")
    put("outside", "dir/inner.txt")
    put("outside", "dir/index.html")
    put("outside2", "never.txt")
    put("outside2", "sub/b.txt")
    R = os.path.join(base, "root")
    os.symlink("sub/b.txt", os.path.join(R, "link_in"))
    os.symlink("sub", os.path.join(R, "dirlink_in"))
    os.symlink("../outside/secret.txt", os.path.join(R, "link_out"))
    os.symlink("../outside", os.path.join(R, "dirlink_out"))
    os.symlink(os.path.join(base, "outside", "secret.txt"), os.path.join(R, "sub", "abs_link_out"))
    os.symlink("../../outside/dir", os.path.join(R, "sub", "dirlink_out2"))
    os.symlink("../outside/secret.txt", os.path.join(base, "alias_target", "link_out"))
    os.symlink("../root/a.txt", os.path.join(base, "alias_target", "link_to_root"))
    os.symlink("../root2/via_link.txt", os.path.join(R, "link_root2"))
    os.symlink("../root2/linkdir", os.path.join(R, "dirlink_root2"))
    os.symlink("../../root2/via_link.txt", os.path.join(R, "sub", "link_root2b"))
    os.symlink("../alias_target2/x2.txt", os.path.join(base, "alias_target", "link_at2"))
    os.symlink("../outside/dir", os.path.join(base, "alias_target", "aldirlink_out"))
    # index files that are symbolic links: out of the root (must not be served when symlinks are checked) and inside it
    os.makedirs(os.path.join(R, "leakidx"))
    os.symlink("../../outside/secret.txt", os.path.join(R, "leakidx", "index.html"))
    os.makedirs(os.path.join(R, "inidx"))
    os.symlink("../a.txt", os.path.join(R, "inidx", "index.html"))
    os.makedirs(os.path.join(base, "alias_target", "leakidx"))
    os.symlink(os.path.join(base, "outside", "dir", "inner.txt"), os.path.join(base, "alias_target", "leakidx", "index.html"))
    os.mkfifo(os.path.join(R, "fifo"))
    return markers


SYMLINK_REACHABLE = {("root2", "via_link.txt"), ("root2", "linkdir/inner2.txt"), ("alias_target2", "x2.txt")}
SEGS = ["a.txt", "sub", "b.txt", "deep", "c.txt", ".", "..", "", ".dotfile", ".hidden", "link_in", "dirlink_in", "link_out", "dirlink_out", "abs_link_out", "dirlink_out2", "secret.txt", "dir", "inner.txt",
        "al", "alx", "inroot.txt", "at.txt", "al2", "x.txt", "list", "withindex", "index.html", "root2", "r2.txt", "outside", "outside2", "never.txt", "alias_target", "fifo", "sp ace.txt", SPECIAL, "...", "..;", "root",
        "per%cent.txt", "pl+us.txt", "utfé.txt", "nonexistent", "leakidx", "inidx", "leakidx", "inidx", "a", "l", "l2", "su", "b", "link_root2", "dirlink_root2", "link_root2b", "link_at2", "aldirlink_out", "inner2.txt", "via_link.txt", "x2.txt", "alias_target2", "linkdir", "..\\", "%2e%2e", "..%2f", "%00", "\xff\xfe"]


def through_link_paths(box):
    """request paths (relative to the document root and to the alias targets) that pass THROUGH a symbolic link to a directory and name
    something below it - found by walking the sandbox the way the kernel resolves it, three link hops deep"""
    out = []
    for area, url in (("root", ""), ("alias_target", "/al"), ("alias2", "/al2")):
        top = os.path.join(box, area)
        stack = [("", 0)]
        seen = 0
        while stack and seen < 400:
            rel, hops = stack.pop()
            d = os.path.join(top, rel)
            try:
                names = sorted(os.listdir(d))
            except OSError:
                continue
            for nm in names:
                r2 = rel + "/" + nm if rel else nm
                full = os.path.join(top, r2)
                is_link = os.path.islink(full)
                if os.path.isdir(full):
                    h2 = hops + (1 if is_link else 0)
                    if h2 <= 3 and r2.count("/") < 6:
                        stack.append((r2, h2))
                    if h2:
                        out.append(url + "/" + r2 + "/")
                elif hops and os.path.isfile(full):
                    out.append(url + "/" + r2)
                seen += 1
    return out


def gen_path(rnd, through=None):
    if through and rnd.random() < 0.12:
        # below a linked directory: the containment of such a path is decided by its intermediate components, not by its last one
        raw = rnd.choice(through)
        if rnd.random() < 0.3:
            k = raw.find("/", 1)
            if k > 0:
                raw = raw[:k] + rnd.choice(["/./", "//", "/zz/../"]) + raw[k + 1:]
        return raw.encode("utf-8", "surrogateescape")
    n = rnd.choice([1, 1, 2, 2, 3, 4, 5, 8])
    segs = [rnd.choice(SEGS) for _ in range(n)]
    if rnd.random() < 0.2:
        segs = [".."] * rnd.randrange(1, 6) + segs
    if rnd.random() < 0.1:
        segs += [".."] * rnd.randrange(1, 4) + [rnd.choice(["outside2", "root2", "outside"]), rnd.choice(["never.txt", "r2.txt", "secret.txt"])]
    raw = "/" + "/".join(segs)
    if rnd.random() < (0.5 if segs[-1] in ("leakidx", "inidx", "withindex", "dirlink_out", "dirlink_out2", "dirlink_in", "dir", "dirlink_root2") else 0.15):
        raw += "/"
    return raw.encode("utf-8", "surrogateescape") if isinstance(raw, str) else raw


def encode_path(rnd, path):
    """percent-encoding with random choices (also for '/', '.', '%' and double encoding)"""
    out = bytearray()
    mode = rnd.randrange(5)
    for c in path:
        ch = bytes([c])
        if mode == 0:
            enc = ch not in proto.UNRESERVED + b"/"
        elif mode == 1:
            enc = ch not in proto.UNRESERVED + b"/" or (ch in b"./" and rnd.random() < 0.5)
        elif mode == 2:
            enc = True
        elif mode == 3:
            enc = ch not in proto.UNRESERVED + b"/" or rnd.random() < 0.2
        else:
            enc = ch not in proto.UNRESERVED + b"/%"
        if enc:
            e = b"%%%02x" % c
            if mode == 3 and rnd.random() < 0.1:
                e = b"%25" + e[1:]
            out += e
        else:
            out += ch
    if not out.startswith(b"/"):
        out = b"/" + out
    return bytes(out)


def canonical_expect(path, aliases):
    """for requests already in canonical form: which (area, rel) must be served"""
    p = path.decode("latin-1")
    for url, area in aliases:
        if p == url or p.startswith(url + "/"):
            return area, p[len(url):].lstrip("/")
    return "root", p.lstrip("/")


def is_listing_body(body):
    return b"Index of" in body and b"<table>" in body


def resolve_reference(p):
    """what the property means by 'after ..', '.', repeated slashes are resolved': purely lexical, never above the top"""
    out = []
    for seg in p.split(b"/"):
        if seg in (b"", b"."):
            continue
        if seg == b"..":
            if out:
                out.pop()
            continue
        out.append(seg)
    return b"/" + b"/".join(out)


SYMLINK_NAMES = (b"aldirlink_out", b"link_in", b"dirlink_in", b"link_out", b"dirlink_out", b"abs_link_out", b"dirlink_out2", b"link_to_root", b"link_root2", b"dirlink_root2", b"link_root2b", b"link_at2", b"leakidx", b"inidx")


def daemon_relative_root_probe(basedir, exe, windex, res, cnt):
    """'inside the configured document root': the documented default root is '.', a relative path. A service started with daemon.enable
    changes its directory to '/' when it detaches; the root has to mean the directory the service was started in, not '/'.
    The server is started as a real daemon (double fork), found again through its lock file and asked for planted files by the
    absolute paths they have in the file system."""
    import signal, subprocess, socket, time, json
    box = os.path.join(basedir, "dbox%d" % windex)
    markers = build_sandbox(box)
    pidfile = os.path.join(box, "daemon.pid")
    port = srv.free_ports(1)[0]
    cfg = {"service": {"api": "http", "ip": "127.0.0.1", "port": port, "worker_threads": 2}, "http": {"script_names": []},
           "file_server": {"enable": True, "document_root": "root" if windex % 2 else ".", "listing": True, "check_symlink": windex % 4 < 2},
           "daemon": {"enable": True, "lock": pidfile}, "logging": {"level": "error"}}
    startdir = box if windex % 2 else os.path.join(box, "root")
    cfgfile = os.path.join(box, "daemon_config.js")
    with open(cfgfile, "w") as f:
        json.dump(cfg, f)
    e = dict(os.environ)
    e.update(common.SAN_ENV)
    p = subprocess.Popen([exe, "--config", cfgfile, "--log", os.path.join(box, "daemon_events.jsonl")], stdin=subprocess.PIPE, stdout=subprocess.DEVNULL, stderr=open(os.path.join(box, "daemon_stderr.txt"), "wb"), env=e, cwd=startdir)   # the harness server quits when its control pipe closes
    try:
        p.wait(60)
    except subprocess.TimeoutExpired:
        p.kill()
        p.wait()
        raise RuntimeError("daemon probe: the starting process did not leave")
    pid = None
    t0 = time.time()
    up = False
    while time.time() - t0 < 30 and not up:
        try:
            socket.create_connection(("127.0.0.1", port), timeout=1).close()
            up = True
        except OSError:
            time.sleep(0.05)
    try:
        pid = int(open(pidfile).read().strip() or "0")
    except (OSError, ValueError):
        pid = None
    if not up or not pid:
        if pid:
            os.kill(pid, signal.SIGKILL)
        raise RuntimeError("daemon probe: daemon did not come up (pid %r): %s" % (pid, open(os.path.join(box, "daemon_stderr.txt"), "rb").read()[-300:]))
    try:
        def get(path):
            c = socket.create_connection(("127.0.0.1", port), timeout=20)
            c.sendall(b"GET " + path + b" HTTP/1.0\r\n\r\n")
            data = b""
            while True:
                d = c.recv(65536)
                if not d:
                    break
                data += d
            c.close()
            return data
        asked = [b"/a.txt", b"/sub/b.txt", b"/"]
        for m, (area, rel) in sorted(markers.items()):
            if re.match(r"^[A-Za-z0-9._/-]+$", rel):
                asked.append(os.path.join(box, area, rel).encode())
                if area != "root":
                    asked.append(("/../" + area + "/" + rel).encode())
        asked += [box.encode() + b"/", box.encode() + b"/outside/", b"/root/a.txt"]
        for path in asked:
            reply = get(path)
            cnt("daemon_mode_requests")
            for m, (area, rel) in markers.items():
                if m in reply:
                    if area == "root":
                        cnt("daemon_mode_files_served_from_the_root")
                    elif not (cfg["file_server"]["check_symlink"] is False and (area, rel) in SYMLINK_REACHABLE):
                        res["viol"].append({"key": "c13:served-file-outside-document-roots:daemon-mode-relative-root",
                                            "detail": "service started in %s with document_root %r and daemon.enable: request %r returned the contents of %s/%s" % (startdir, cfg["file_server"]["document_root"], path, area, rel),
                                            "replay": {"config": cfg, "cwd": startdir, "path": path.decode("latin-1")}})
                        return
            if reply.startswith(b"HTTP/1.0 200") and is_listing_body(reply) and (b"outside" in reply and b"root2" in reply):
                res["viol"].append({"key": "c13:listing-of-directory-outside-document-roots:daemon-mode-relative-root", "detail": "request %r lists the parent of the document root" % path, "replay": {"config": cfg, "cwd": startdir, "path": path.decode("latin-1")}})
                return
    finally:
        try:
            os.kill(pid, signal.SIGTERM)
            for _ in range(100):
                os.kill(pid, 0)
                time.sleep(0.05)
            os.kill(pid, signal.SIGKILL)
        except OSError:
            pass


def worker(args):
    basedir, exe, seed, ncases, windex = args
    rnd = random.Random(seed)
    res = {"viol": [], "counters": {}, "samples": [], "fail": None, "configs": set()}

    def cnt(k, n=1):
        res["counters"][k] = res["counters"].get(k, 0) + n
    S = None
    try:
        if windex < 4:
            daemon_relative_root_probe(basedir, exe, windex, res, cnt)
        for cfgi in range(2):
            if res["viol"]:
                break
            box = os.path.join(basedir, "box%d_%d" % (windex, cfgi))
            markers = build_sandbox(box)
            through = through_link_paths(box)
            check_symlink = rnd.random() < 0.6
            listing = rnd.random() < 0.5
            nalias = rnd.choice([0, 1, 2])
            is_async = rnd.random() < 0.5
            aliases = []
            if nalias >= 1:
                aliases.append(("/al", "alias_target"))
            if nalias >= 2:
                aliases.append(("/al2", "alias2"))
            fs = {"enable": True, "document_root": os.path.join(box, "root"), "listing": listing, "check_symlink": check_symlink, "async": is_async,
                  "alias": [{"url": u + ("/" if rnd.random() < 0.3 else ""), "path": os.path.join(box, a)} for u, a in aliases]}
            res["configs"].add((check_symlink, listing, nalias, is_async))
            S = srv.Server(basedir, exe, "fs%d_%d" % (windex, cfgi), overrides={"file_server": fs, "http": {"script_names": []}})
            allowed_areas = {"root"} | set(a for _, a in aliases)
            real_allowed = [os.path.realpath(os.path.join(box, a)) for a in allowed_areas]
            for ci in range(ncases // 2):
                if res["viol"]:
                    break
                canonical = rnd.random() < 0.25
                if canonical:
                    area, rel = rnd.choice([v for v in markers.values() if v[0] in allowed_areas and re.match(r"^[A-Za-z0-9._/-]+$", v[1])])
                    url = dict((a, u) for u, a in aliases).get(area, "")
                    path = (url + "/" + rel).encode("utf-8")
                    if rnd.random() < 0.2:
                        path = ("/alx/inroot.txt" if rnd.random() < 0.5 else "/al").encode()
                    wire = path
                    if rnd.random() < 0.4 and len(path) > 3:
                        # a dot-segment detour that CUTS a name in two ("/al/at.txt" -> "/a/zz/../l/at.txt"): resolved lexically this is
                        # another path (another area when an alias name was cut); it must not be glued back together
                        canonical = False
                        k = rnd.randrange(2, len(path) - 1)
                        if path[k - 1:k] != b"/" and path[k:k + 1] != b"/":
                            path = path[:k] + rnd.choice([b"/zz/../", b"/sub/../", b"/a/b/../../", b"/./q/../"]) + path[k:]
                            cnt("requests_cutting_a_name_with_a_detour")
                        wire = path
                else:
                    path = gen_path(rnd, through)
                    if path.decode("utf-8", "surrogateescape").rstrip("/") in [t.rstrip("/") for t in through]:
                        cnt("requests_below_a_linked_directory")
                    wire = encode_path(rnd, path)
                if len(wire) > 12000:
                    continue
                use_scgi = rnd.random() < 0.15 and not canonical
                tok = b"F%d" % ci
                rp = {"config": {"check_symlink": check_symlink, "listing": listing, "aliases": aliases, "async": is_async}, "path": path.decode("latin-1"), "wire": wire.decode("latin-1"), "via": "scgi" if use_scgi else "http"}
                try:
                    if use_scgi:
                        pi = path if rnd.random() < 0.7 else path.lstrip(b"/")   # PATH_INFO handed over verbatim, also without the leading slash
                        if b"\0" in pi:
                            pi = pi.replace(b"\0", b"")
                        r = proto.Req(method=b"GET", script=b"", path_info=pi, token=tok)
                        c = srv.Conn(S, "scgi")
                        c.send(proto.scgi_encode(r))
                        raw, closed = c.recv_all(10)
                        c.close()
                        d = proto.cgi_parse_response(raw)
                    else:
                        data = b"GET " + wire + b" HTTP/1.0\r\nHost: localhost\r\nX-Token: " + tok + b"\r\n\r\n"
                        c = srv.Conn(S, "http")
                        c.send(data)
                        raw, closed = c.recv_all(10)
                        c.close()
                        d = proto.http_parse_response(raw)
                except OSError as e:
                    if not S.alive():
                        break
                    cnt("client_io_errors")
                    continue
                cnt("requests")
                st = d["status"]
                body = d["body"]
                if st is None:
                    cnt("no_reply")
                    cnt("no_reply_" + rp["via"])
                    if len(res["samples"]) < 4:
                        res["samples"].append({"no_reply": rp["wire"][:200], "via": rp["via"], "raw": raw[:100].decode("latin-1")})
                    if not S.alive():
                        break
                    continue
                cnt("status_%d" % st)
                if st >= 500:
                    res["viol"].append({"key": "c13:server-error-%d" % st, "detail": repr(path[:200]), "replay": rp})
                    break
                found = re.findall(rb"MARK\{[^}]*\}", raw)
                # which root the resolved path selects: the alias that prefixes it, else the document root
                seen_by_server = proto.url_decode(wire, plus=False) if not use_scgi else pi
                if not seen_by_server.startswith(b"/"):
                    seen_by_server = b"/" + seen_by_server
                resolved = resolve_reference(seen_by_server.split(b"\0")[0])
                want_area = "root"
                for u, a in aliases:
                    if resolved == u.encode() or resolved.startswith(u.encode() + b"/"):
                        want_area = a
                        break
                through_symlink = any(nm in resolved.split(b"/") for nm in SYMLINK_NAMES)
                for m in found:
                    area, rel = markers.get(m, ("?", "?"))
                    if st == 200 and not is_listing_body(body) and area in allowed_areas and area != want_area and (check_symlink or not through_symlink):
                        res["viol"].append({"key": "c13:served-from-a-root-the-resolved-path-does-not-select", "detail": "request %r resolves to %r, which selects %s, but the contents of %s/%s were returned (aliases=%r check_symlink=%s)" % (path[:200], resolved[:200], want_area, area, rel, aliases, check_symlink), "replay": rp})
                        break
                    cnt("area_selection_checked")
                    fpath = os.path.join(box, area, rel)
                    ok = area in allowed_areas
                    if check_symlink:
                        pass
                    else:
                        # lexical containment only: whatever a symlink inside a root points to may be served
                        if area == "outside":
                            ok = True
                    if area in ("outside2", "root2", "alias_target2", "?"):
                        ok = False
                    if (area, rel) in SYMLINK_REACHABLE:
                        ok = not check_symlink      # files that only a symbolic link inside a root leads to
                    if area == "outside" and check_symlink:
                        ok = False
                    if area in ("alias_target", "alias2") and area not in allowed_areas:
                        ok = False
                    if not ok:
                        res["viol"].append({"key": "c13:served-file-outside-document-roots:" + area, "detail": "request %r returned the contents of %s/%s (check_symlink=%s aliases=%r)" % (path[:200], area, rel, check_symlink, aliases), "replay": rp})
                        break
                    cnt("markers_served")
                if res["viol"]:
                    break
                is_listing = st == 200 and b"Index of" in body and b"<table>" in body
                if is_listing:
                    cnt("listings")
                    if not listing:
                        res["viol"].append({"key": "c13:directory-listing-although-disabled", "detail": repr(path[:200]), "replay": rp})
                        break
                    names = re.findall(rb"<a href='([^']*)'", body)
                    for nm in names:
                        dn = proto.url_decode(nm, plus=False)
                        if dn.startswith(b".") and dn not in (b"../",):
                            res["viol"].append({"key": "c13:listing-shows-dot-file", "detail": repr(dn), "replay": rp})
                            break
                    # a listing of a directory outside the roots (reached through a symlink) discloses its file names
                    shown = set(proto.url_decode(nm, plus=False) for nm in names)
                    leak = [x for x in (b"never.txt", b"r2.txt") if x in shown] + ([x for x in (b"secret.txt", b"inner.txt", b"inner2.txt") if x in shown] if check_symlink else [])
                    if leak:
                        res["viol"].append({"key": "c13:listing-of-directory-outside-document-roots", "detail": "request %r lists %r (check_symlink=%s)" % (path[:200], leak, check_symlink), "replay": rp})
                        break
                    if b"<ird>" in body or b"&'\"" in body or b"we<" in body:
                        res["viol"].append({"key": "c13:listing-not-html-escaped", "detail": repr(body[:0] + b"..."), "replay": rp})
                        break
                    if b"list" in path and b"we&lt;ird&gt;" in body:
                        cnt("listing_escaped_names_seen")
                if canonical and path not in (b"/al",):
                    area, rel = canonical_expect(path, aliases)
                    want = ("MARK{%s|%s}" % (area, rel)).encode("utf-8")
                    target = os.path.join(box, area, rel)
                    if os.path.isfile(target) and not os.path.islink(target):
                        if st != 200 or body != want:
                            res["viol"].append({"key": "c13:canonical-request-served-from-wrong-root", "detail": "request %r expected %s got status %r body %r" % (path, want, st, body[:80]), "replay": rp})
                            break
                        cnt("canonical_checked")
                if ci < 2 and cfgi == 0:
                    res["samples"].append({"request": wire[:120].decode("latin-1"), "status": st, "config": rp["config"]})
            S.stop()
            key, detail = S.death_report()
            if key:
                res["viol"].append({"key": key, "detail": detail, "replay": None})
    except Exception as e:  # harness failure
        import traceback
        res["fail"] = "%r\n%s\n%s" % (e, traceback.format_exc()[-1500:], S.stderr()[-800:] if S else "")
        if S:
            S.stop()
    res["configs"] = sorted(map(repr, res["configs"]))
    return res


def run(ck):
    exe = ck.build("asan", ["vsrv"])["vsrv"]
    thorough = ck.tier == "thorough"
    n = int((600000 if thorough else 1400) * ck.scale)
    args = [(ck.rundir, exe, sa.subseed(ck, i), n, i) for i in range(16)]
    results = c01.run_workers(ck, worker, args)
    cfgs = set()
    for r in results:
        cfgs |= set(r.get("configs", ()))
    ck.distinct["configs"] = cfgs
    ck.assumptions += [
        "every file in the sandbox holds a unique marker; markers of areas outside every configured root (a sibling whose name has the root as string prefix, a directory no symlink points to, unconfigured alias targets) must never appear in any reply",
        "with check_symlink off containment is lexical, as documented: whatever a symlink inside a root points to may be served",
        "the strict root-selection criterion is applied only to requests already in canonical form (no %, +, empty, '.' or '..' segments)",
    ]
    ck.finish("exploration",
              "per server instance a sandbox (document root, sibling root2, two alias targets, outside areas, symlinks to files and directories inside and outside incl. absolute and nested ones, FIFO, dot-files, HTML-special names) and a "
              "configuration drawn from check_symlink x listing x 0..2 aliases x sync/async; request paths from 50 segment kinds ('.', '..', empty, symlinks, alias and near-alias prefixes, encoded separators, NUL, non-UTF-8) with five "
              "percent-encoding styles incl. double encoding, over HTTP and (PATH_INFO verbatim, also without leading slash) SCGI; oracles: marker containment, listing only when enabled / no dot-files / escaped, canonical "
              "requests served from the right root, no 5xx, server alive; four real daemons (daemon.enable, double fork, found again through the lock file) with a relative document root ('.' and 'root') asked for every planted file by its absolute file-system path. non-trivial = distinct configurations",
              "requests", "configs", min_evals=8000,
              required_nonzero=("markers_served", "status_404", "status_200", "listings", "canonical_checked", "listing_escaped_names_seen", "daemon_mode_requests", "daemon_mode_files_served_from_the_root", "requests_below_a_linked_directory"))
