"""C19 - serialized objects round-trip; malformed archives rejected safely."""
from .. import standalone as sa


def run(ck):
    asan = ck.build("asan", ["ser_mon"])["ser_mon"]
    thorough = ck.tier == "thorough"
    n = int((1200 if thorough else 105) * ck.scale)
    jobs = []
    for i in range(16):
        jobs.append(dict(exe=asan, args=["--mode", "run", "--cases", n, "--seed", sa.subseed(ck, i)], label="run%d" % i, timeout=7200))
    if thorough:
        # every mutation of every archive (--all) costs several hundred times a sampled case (about 20 s each): many short jobs so that all cores stay busy
        for i in range(32):
            jobs.append(dict(exe=asan, args=["--mode", "run", "--cases", max(1, n // 85), "--seed", sa.subseed(ck, 100 + i), "--all"], label="all%d" % i, timeout=7200))
    if thorough:
        plain = ck.build("plain", ["ser_mon"])["ser_mon"]
        for i in range(4):
            jobs.append(dict(exe="valgrind", args=["-q", "--error-exitcode=97", "--undef-value-errors=no", plain, "--mode", "run", "--cases", 70, "--seed", sa.subseed(ck, 300 + i)],
                             label="memcheck%d" % i, timeout=7200))
    sa.run_jobs(ck, jobs, sets=("archives", "types"))
    if thorough:
        from .. import fuzz
        fuzz.run_libfuzzer(ck, "ser_fuzz", seconds=int(600 * ck.scale), jobs=16, key_prefix="malformed:fuzz")
    # memcheck is used for addressing errors only: archives of structs carry their padding bytes, which are never initialised
    c = ck.counters
    c["evaluations_total"] = c.get("roundtrips", 0) + c.get("malformed_loads", 0)
    ck.assumptions += ["strict shadow reader ([u32 length][bytes], pos+4+len <= size) is the archive format",
                       "memcpy(NULL, p, 0) on empty POD vectors is not treated as a violation (UBSan nonnull-attribute check disabled)"]
    ck.finish("exploration",
              "35 nested C++ types (PODs, strings with NULs, vectors/lists/sets/maps/multimaps/pairs, null/non-null smart pointers, json::value, user serializable classes) with generated values: "
              "load(save(v))==v via >>, & and serialization_traits; then every truncation, every 4-byte length field set to 28 boundary values (true+-1..4, remaining+-k, 0, 2^31, 2^32-1..4, wrap-around), "
              "tails cut 1..3 bytes short, bit flips, random bytes, other types' archives: load must throw or agree with the strict shadow reader; ASan+UBSan on. non-trivial = distinct (type, archive) pairs",
              "evaluations_total", "archives", min_evals=20000,
              required_nonzero=("roundtrips", "malformed_loads", "malformed_accepted", "malformed_rejected", "serialization_traits_roundtrips", "json_values_with_arbitrary_doubles"))
