"""C08 - the cache stays within its limit; evicts expired, then least-recently-used."""
from .. import standalone as sa
from . import c07


def run(ck):
    exe = ck.build("asan", ["cache_mon"])["cache_mon"]
    sa.run_jobs(ck, c07.jobs_for(ck, exe, evict=True), sets=("states",))
    ck.assumptions += [
        "among several expired entries the choice of victim is free; live victims must be the tail of the live LRU order",
        "a process-shared cache may evict more, drop a store or clear itself only when the hook shows the segment low (largest free chunk < size/8) or the value large relative to it",
        "post-clear free memory may wobble by allocator rounding (slack max(4 KiB, size/128)); a leak grows without bound and exceeds it",
        "thread-shared runs execute with LeakSanitizer on (memory of removed entries is released)",
    ]
    ck.finish("exploration",
              "limits 1..8 with key alphabets larger than the limit on both back ends: exhaustive sequences (limit 1 and 2) and long random histories; every store is judged by the eviction transition relation "
              "(exactly as many victims as needed, expired before live, live victims = LRU tail) computed from dumps before/after; entry and trigger-link counts equal the model's; shared-memory fill/clear/refill cycles "
              "with value sizes up to a third of the segment check conservation of free memory. non-trivial = distinct model states reached",
              "ops", "states", min_evals=100000,
              required_nonzero=("fetch_partial_outputs", "evictions", "evictions_expired", "evictions_lru", "conservation_checks", "stores_under_memory_pressure", "dumps"))
