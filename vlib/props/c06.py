"""C06 - session state carries over between requests exactly, never after it ended."""
import os
from .. import standalone as sa


def run(ck):
    asan = ck.build("asan", ["sess_hist"])["sess_hist"]
    thorough = ck.tier == "thorough"
    worlds = int((15000 if thorough else 60) * ck.scale)
    # a process hosts at most 400 worlds: every network-storage world leaves thread-specific keys behind in the driver thread
    # (booster keeps a key until the threads that used it end) and a process has only 1024 of them
    per_job = min(worlds, 400)
    njobs = 16 * max(1, (worlds + per_job - 1) // per_job)
    jobs = [dict(exe=asan, args=["--worlds", per_job, "--requests", [60, 150, 300][i % 3], "--seed", sa.subseed(ck, i), "--dir", os.path.join(ck.rundir, "s%d" % i)],
                 label="hist%d" % i, timeout=14400) for i in range(njobs)]
    sa.run_jobs(ck, jobs, sets=("worlds",))
    ck.assumptions += [
        "the deadline is modelled as an interval: exact after a save that had to happen (new session, changed data), widened by the documented 10 % rule when an unchanged renew/browser session may or may not have been re-saved; "
        "inside the interval either outcome is accepted, contents must always be exact",
        "age/expiration are changed on an existing *fixed* session only together with reset_session (the documentation leaves two readings)",
        "a client-side cookie cannot be revoked, so only server-side identifiers are replayed by the adversary; a stolen *current* identifier is legitimate access",
        "storage 'network' is a real tcp_cache_service on loopback with memory storage behind it, reached through sessions::tcp_factory; the stand-alone session_pool(json) is used (not session_pool(service&))",
        "unpredictability of identifiers is judged by provenance (16 bytes read from /dev/urandom during that save, seen through a read() shim) and uniqueness only",
    ]
    ck.finish("exploration",
              "worlds = location {client, server, both} x storage {memory, files, network} x expire {fixed, renew, browser} x default age {20,100,1000} x 1..4 browsers with cookie jars honouring Max-Age/Expires under a virtual clock; "
              "60..300 requests per world, each a random mix of set/erase/clear/expose/hide/age/expiration/on_server/reset_session + save, clock advances drawn around 0, 10 %, 90 %, 100 % and 200 % of the age, browser restarts, "
              "and an adversary presenting revoked, malformed and path-like identifiers and attempting fixation; an executable model predicts what load() must show; a wrapping storage and an open() shim check every key/path "
              "addressed. non-trivial = distinct world configurations",
              "requests", "worlds", min_evals=20000,
              required_nonzero=("loads_with_session", "sessions_ended", "ended_session_exposed_checks", "stale_exposed_cookies_at_ended_session", "adversary_requests", "ids_issued", "fixation_attempts", "exposed_cookie_checks", "both_saved_on_server", "both_saved_in_cookie",
                                "requests_in_envelope_gap", "storage_calls", "paths_touched", "worlds_storage_network", "worlds_storage_files", "worlds_storage_memory", "worlds_location_client"))
