"""C15 - HTML escaping, URL codec, base64url codec."""
import base64
import html
import json
import os
import urllib.parse

from .. import standalone as sa


def run(ck):
    asan = ck.build("asan", ["codec_mon"])["codec_mon"]
    plain = ck.build("plain", ["codec_mon"])["codec_mon"]
    thorough = ck.tier == "thorough"
    jobs = []
    # exhaustive: all strings of length 0..2 on every path (asan), split by first byte
    parts = 16
    for i in range(parts):
        lo, hi = 256 * i // parts, 256 * (i + 1) // parts
        jobs.append(dict(exe=asan, args=["--mode", "exhaust", "--from", lo, "--to", hi, "--maxlen", 2], label="exhaust%d" % i))
    # base64: all 2^24 three-byte blocks
    for i in range(8):
        lo, hi = 256 * i // 8, 256 * (i + 1) // 8
        jobs.append(dict(exe=plain if not thorough else asan, args=["--mode", "b64_3", "--from", lo, "--to", hi], label="b64_3_%d" % i, timeout=3000))
    jobs.append(dict(exe=asan, args=["--mode", "sizes"], label="sizes"))
    n = int((200000 if thorough else 1500) * ck.scale)
    for i in range(8):
        jobs.append(dict(exe=asan, args=["--mode", "random", "--cases", n, "--seed", sa.subseed(ck, i)], label="random%d" % i, timeout=3000))
    for i in range(2):
        jobs.append(dict(exe=asan, args=["--mode", "decoders", "--cases", n * 20, "--seed", sa.subseed(ck, 50 + i)], label="decoders%d" % i))
        jobs.append(dict(exe=asan, args=["--mode", "widgets", "--cases", n, "--seed", sa.subseed(ck, 60 + i)], label="widgets%d" % i))
    dump = os.path.join(ck.rundir, "dump.jsonl")
    jobs.append(dict(exe=asan, args=["--mode", "dump", "--cases", n * 2, "--seed", sa.subseed(ck, 70), "--out", dump], label="dump"))
    sa.run_jobs(ck, jobs, sets=("inputs", "lengths"))
    # independent inverses from the python standard library
    if os.path.exists(dump):
        for line in open(dump):
            j = json.loads(line)
            raw = bytes.fromhex(j["in"])
            ck.count("python_crosschecks")
            for k in ("esc", "fesc"):
                esc = bytes.fromhex(j[k])
                bad = [c for c in b"<>\"'" if c in esc]
                if bad or html.unescape(esc.decode("latin-1")).encode("latin-1", "replace") != raw:
                    ck.violation("escape:python-html-unescape-mismatch:" + k, "in=%s out=%s" % (j["in"], j[k]), {"in": j["in"]})
            if urllib.parse.unquote_to_bytes(bytes.fromhex(j["url"])) != raw:
                ck.violation("url:python-unquote-mismatch", "in=%s" % j["in"], {"in": j["in"]})
            b = bytes.fromhex(j["b64"])
            if b"=" in b or base64.urlsafe_b64decode(b + b"=" * (-len(b) % 4)) != raw:
                ck.violation("b64:python-decode-mismatch", "in=%s" % j["in"], {"in": j["in"]})
    ck.counters["nontrivial_total"] = len(ck.distinct.get("inputs", ())) + ck.counters.get("b64_checks", 0) // 2
    ck.assumptions += [
        "un-escape oracle accepts any character-reference spelling of the five characters",
        "failure *reporting* of streaming variants is outside the statement: util::urlencode(streambuf) returns 0 on a failing sink although documented to return -1 (recorded under counters.obs_*), only the bytes written are judged",
        "a '%' not followed by two hex digits has no specified decoding; only memory safety is judged there",
    ]
    ck.finish("exploration",
              "all strings of length 0..2 through every escape/urlencode/base64 path incl. every failing-sink cut; all 2^24 base64 3-byte blocks; lengths 0..1024 with exact-size heap buffers under ASan; "
              "random strings to 64 KiB (filter buffer edges 120..136); malformed decoder input; form widgets with sentinel-delimited payloads; python html/urllib/base64 as independent inverses. "
              "non-trivial = distinct random inputs + half of the base64 block cases",
              "cases", "nontrivial_total", min_evals=100000,
              required_nonzero=("escape_checks", "url_checks", "b64_checks", "failing_sink_runs", "widget_payloads", "decoder_cases", "python_crosschecks"))


def replay(j):
    import subprocess
    from .. import build as vbuild
    exe = vbuild.build("asan", ["codec_mon"])["codec_mon"]
    case = ((j.get("replay") or {}).get("case") or {})
    if "in" not in case:
        print("replay: no input recorded")
        return 2
    p = subprocess.run([exe, "--mode", "one", "--in", case["in"]])
    return 1 if p.returncode else 0
