"""C04 - XSS filter output contains only white-listed markup and is stable."""
from .. import standalone as sa


def run(ck):
    asan = ck.build("asan", ["xss_mon"])["xss_mon"]
    thorough = ck.tier == "thorough"
    n = int((3000000 if thorough else 60000) * ck.scale)
    jobs = [dict(exe=asan, args=["--mode", "run", "--cases", n, "--seed", sa.subseed(ck, i)], label="run%d" % i, timeout=14400) for i in range(16)]
    # attribute values of 100 bytes .. 120 KB against pattern-valued attributes (library uri_matcher() and repeated groups)
    jobs.append(dict(exe=asan, args=["--mode", "long", "--seed", sa.subseed(ck, 99)], label="long", timeout=14400))
    sa.run_jobs(ck, jobs, sets=("inputs", "rule_sets", "token_shapes"))
    if thorough:
        from .. import fuzz
        seeds = [b'\x00<b>x</b><a href="http://x/?a=1&amp;b=2">y</a>&amp;<!-- c --><br />', b'\x05<img src="javascript:x" alt=\'q\' checked>&#65;&nbsp;']
        fuzz.run_libfuzzer(ck, "xss_fuzz", seconds=int(600 * ck.scale), jobs=16, key_prefix="xss:fuzz", max_len=2048, seeds=seeds)
    ck.assumptions += [
        "the lenient tokenizer (HTML5-style tag/attribute scanning, entity decoding and whitespace stripping before scheme extraction) over-approximates what browsers take as markup",
        "rule sets come from a generated family (14 tag names, 10 attribute names, 4 regex patterns on which PCRE and the harness matcher agree, 3 scheme lists); rules are built through the JSON constructor",
        "for UTF-16LE (not ASCII compatible) only validate∘filter, identity and well-formedness are judged, not the tokenizer",
    ]
    ck.finish("exploration",
              "(rule set, input, method, replacement) tuples: rule sets generated from seeds over xhtml/html x tag kinds x 6 property kinds x comments/numeric entities x 6 encodings; inputs from an HTML-ish grammar "
              "(nested/crossed/unterminated tags, quoting forms, entities, comments, obfuscated URI schemes, NUL/invalid UTF-8) plus byte mutations; oracles validate(filter(x)), idempotence, identity on valid input, "
              "independent lenient tokenizer vs the rule description, encoding well-formedness. non-trivial = distinct (rules, input) pairs",
              "pairs", "inputs", min_evals=100000,
              required_nonzero=("inputs_valid", "inputs_changed", "o3_runs", "token_shapes", "rule_sets", "long_value_inputs", "long_values_accepted", "long_values_refused"))


def replay(j):
    import subprocess
    from .. import build as vbuild
    exe = vbuild.build("asan", ["xss_mon"])["xss_mon"]
    case = ((j.get("replay") or {}).get("case") or {})
    if "input" not in case:
        print("replay: no input recorded")
        return 2
    p = subprocess.run([exe, "--mode", "one", "--rules_seed", str(case["rules_seed"]), "--input", case["input"]])
    return 1 if p.returncode else 0
