"""C10 - networked cache with local L1 never serves data another node replaced."""
from .. import standalone as sa


def run(ck):
    asan = ck.build("asan", ["netcache_mon"])["netcache_mon"]
    thorough = ck.tier == "thorough"
    k = (150 if thorough else 1) * ck.scale
    jobs = []
    # at most ~150 worlds per process: every world creates services whose thread-specific keys stay allocated (1024 per process)
    chunks = max(1, int(12 * k + 149) // 150)
    for i in range(14):
        for c in range(chunks):
            jobs.append(dict(exe=asan, args=["--worlds", max(1, int(12 * k) // chunks), "--ops", [150, 400, 1000][i % 3], "--seed", sa.subseed(ck, i + 1000 * c)], label="net%d_%d" % (i, c), timeout=14400))
    # the input class 'key or trigger name containing NUL / empty trigger name' (the wire format is NUL separated) is explored separately
    ochunks = max(1, int(6 * k + 149) // 150)
    for i in range(2):
        for c in range(ochunks):
            jobs.append(dict(exe=asan, args=["--worlds", max(1, int(6 * k) // ochunks), "--ops", 200, "--odd", "--seed", sa.subseed(ck, 50 + i + 1000 * c)], label="odd%d_%d" % (i, c), timeout=14400))
    # concurrent nodes: application threads of 1..3 nodes (shared cache_over_ip object, shared L1, per-thread connection) against
    # multi-threaded servers; TSan for the server/L1 paths, history checks (stale read after a completed invalidation, foreign or
    # torn value, full linearizability of short histories) for the behaviour
    tsan = ck.build("tsan", ["cache_conc"])["cache_conc"]
    asanc = ck.build("asan", ["cache_conc"])["cache_conc"]
    kc = min(k, 60 * ck.scale)      # the concurrent jobs keep their size: one process each
    for i in range(6):
        exe = tsan if i % 3 != 2 else asanc
        jobs.append(dict(exe=exe, args=["--mode", "netshort", "--histories", int(150 * kc), "--yield", [0, 30, 120][i % 3], "--seed", sa.subseed(ck, 70 + i)], label="netshort%d" % i, timeout=14400))
    for i in range(4):
        exe = tsan if i % 2 == 0 else asanc
        jobs.append(dict(exe=exe, args=["--mode", "netlong", "--histories", int(3 * kc), "--ops", 300, "--threads", 6, "--yield", [0, 60][i % 2], "--seed", sa.subseed(ck, 80 + i)], label="netlong%d" % i, timeout=14400))
    sa.run_jobs(ck, jobs, sets=("worlds", "shapes"))
    ck.counters["ops_total"] = sum(ck.counters.get(x, 0) for x in ("stores", "fetches", "rises", "clears", "ops"))
    ck.inconclusive += ck.counters.get("linearizability_inconclusive", 0)
    ck.assumptions += [
        "sequential part: one driver thread issues a total order of operations over 2..3 clients, so 'current at the time of the fetch' is the state of a sequential model; the servers and clients are the real tcp_cache_service / tcp_cache_factory objects on loopback",
        "concurrent part: 'current at the time of the fetch' is decided on real-time order at the client boundary (a hit must not return a value whose invalidation completed before the fetch began; short histories must be linearizable)",
        "a cache server that restarts and begins its generation counter again is outside the quantifier and not driven",
        "remove() is a documented no-op for the network cache and is not driven",
        "keys and trigger names containing NUL and empty trigger names are a separate input class (known finding: the wire format is NUL separated)",
    ]
    ck.finish("exploration",
              "worlds of 1..2 cache servers and 2..3 clients (each with or without an L1 of limit 0..4) on loopback under a virtual clock: random total orders of store/fetch/rise/clear/stats over 2..12 keys (binary keys, empty and "
              ">64 KiB values with NULs, 1000-element trigger lists, expired-on-arrival deadlines); every fetch on every node must equal the sequential model (value, trigger set, deadline) - in particular after another node's "
              "store/rise/clear while the old value sits in this node's L1; the dump hook on each server's backing cache checks that every key lives on exactly one server, always the same. Concurrent part: 2..6 application threads on 1..3 nodes (L1 absent / unlimited / 1..3 entries) against 1..2 servers with 1..3 threads each, "
              "under ThreadSanitizer and ASan, histories with unique values checked for stale/foreign/torn reads and, for short ones, linearizability (WGL search). non-trivial = distinct world shapes",
              "ops_total", "worlds", min_evals=10000,
              required_nonzero=("hits_through_l1_client", "misses", "rise_killed", "clears", "placement_checks", "stores_of_empty_value", "histories_net_short", "histories_net_long", "histories_linearized", "overlapping_pairs"))
