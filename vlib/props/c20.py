"""C20 - URL routing is deterministic, whole-string, and consistent with URL generation."""
from .. import standalone as sa


def run(ck):
    asan = ck.build("asan", ["route_mon"])["route_mon"]
    thorough = ck.tier == "thorough"
    k = (60 if thorough else 1) * ck.scale
    jobs = [dict(exe=asan, args=["--trees", int(400 * k), "--dispatches", 120, "--mounts", int(3000 * k), "--seed", sa.subseed(ck, i)], label="route%d" % i, timeout=14400) for i in range(16)]
    sa.run_jobs(ck, jobs, sets=("trees",))
    ck.counters["evaluations_total"] = ck.counters.get("dispatches", 0) + ck.counters.get("mapper_urls", 0) + ck.counters.get("mount_point_matches", 0)
    ck.assumptions += [
        "the model uses std::regex (ECMAScript backtracking engine) for full-string matching and capture groups; the pattern family (literals, classes, groups, |, ? * +, bounded repeats) is one on which it and PCRE agree",
        "a request reaches applications through an in-process connection object (tests/dummy_api.h) carrying REQUEST_METHOD/PATH_INFO; first-mount-point selection by the applications pool over real front-ends is part of the server harness",
        "a mapper-produced URL that an earlier registered entry also matches is decided by the configuration and only counted",
        "NUL-free URLs (CGI variables are C strings)",
    ]
    ck.finish("exploration",
              "generated application trees (depth 1..4, 1..6 handlers per node from 16 overlapping patterns incl. catch-alls and alternations, 0..6 selected capture groups in any order, method filters incl. regex methods; handlers registered through assign, assign_generic, map_generic and typed map() members taking int / std::string / char / (std::string,int), "
              "sub-applications mounted with colliding prefixes) x URLs drawn from, one edit away from (extra prefix/suffix, inserted newline, dropped character, doubled) and outside the pattern languages x 7 methods: the "
              "handler that ran and its arguments must equal the model's first full match in registration order, else 404; url_mapper output for every key (absolute, relative, '..') routed back from the root; "
              "mount_point::match on host/script/path triples. non-trivial = distinct trees",
              "evaluations_total", "trees", min_evals=50000,
              required_nonzero=("dispatches_matched", "dispatches_404", "mapper_roundtrips", "mount_point_accepts", "typed_handlers_registered", "typed_handlers_expected_b", "typed_handlers_expected_d", "typed_handlers_expected_ad", "typed_handlers_skipped_for_a_group_that_does_not_convert"))
