"""C16 - digests, HMAC and CBC compute the standard functions."""
import hashlib
import hmac as pyhmac
from .. import standalone as sa


def run(ck):
    asan = ck.build("asan", ["crypto_mon"])["crypto_mon"]
    thorough = ck.tier == "thorough"
    jobs = [dict(exe=asan, args=["--mode", "vectors"], label="vectors")]
    parts = 16
    for i in range(parts):
        jobs.append(dict(exe=asan, args=["--mode", "grid", "--parts", parts, "--part", i, "--seed", sa.subseed(ck, i)], label="grid%d" % i))
    n = int((48000 if thorough else 150) * ck.scale)
    for i in range(16):
        jobs.append(dict(exe=asan, args=["--mode", "random", "--cases", n, "--seed", sa.subseed(ck, 100 + i)], label="random%d" % i, timeout=3600))
    # messages of 512 MiB +- 1 (where a 32-bit bit count wraps); in thorough also 2 GiB in a single append and 4 GiB, all algorithms
    plain = ck.build("plain", ["crypto_mon"])["crypto_mon"]
    jobs.append(dict(exe=plain, args=["--mode", "big"] + (["--huge"] if thorough else []), label="big", timeout=7200))
    if thorough:
        vg = ["valgrind", "-q", "--error-exitcode=97", "--track-origins=no", plain]
        for i in range(4):
            jobs.append(dict(exe=vg[0], args=vg[1:] + ["--mode", "random", "--cases", 60, "--seed", sa.subseed(ck, 200 + i)], label="memcheck%d" % i, timeout=3600))
    sa.run_jobs(ck, jobs, sets=("inputs", "lengths", "shapes"))
    c = ck.counters
    c["checks_total"] = c.get("digest_checks", 0) + c.get("hmac_checks", 0) + c.get("cbc_checks", 0)
    c["nontrivial_total"] = len(ck.distinct.get("inputs", ())) + len(ck.distinct.get("lengths", ())) + len(ck.distinct.get("shapes", ()))
    ck.assumptions += ["libgcrypt (independent of the OpenSSL + bundled MD5/SHA-1 code cppcms uses here) computes the standard functions; guarded by embedded RFC/FIPS/SP800-38A vectors checked against both"]
    ck.finish("exploration",
              "every message length 0..4300 x 6 algorithms x fresh and reused objects x random append chunkings, HMAC keys of length 0..3 block sizes with 0..3 reuses, "
              "random long messages, messages of 512 MiB +- 1 byte (thorough: 2 GiB in one append, 4 GiB), AES-CBC 128/192/256 with explicit and nonce IVs over 0..2000 blocks in one or several calls, compared with libgcrypt; hex key parsing. "
              "non-trivial = distinct (message,key) inputs + distinct lengths + distinct chunking shapes",
              "checks_total", "nontrivial_total", min_evals=50000,
              required_nonzero=("digest_checks", "hmac_checks", "cbc_checks", "cbc_nonce_checks", "standard_vectors", "hexkey_checks"))
