"""C03 - the client receives exactly the bytes the application wrote, once and in order."""
import random
import time

from .. import proto, srv
from .. import standalone as sa
from . import c01

_pat_cache = {}


def pat(p, n):
    k = (p, n)
    if k not in _pat_cache:
        if len(_pat_cache) > 3000:
            _pat_cache.clear()
        _pat_cache[k] = proto.pattern_bytes(p, n)
    return _pat_cache[k]


def gen_raw_script(rnd, is_async, allow_big, ops):
    """io_mode raw / asynchronous_raw: the application writes the CGI-style header block itself, cut anywhere across writes and
    flushes; the library parses it out of the stream and the protocol layer frames the rest."""
    mode = 4 if is_async else 2
    ops.append("m%d" % mode)
    if is_async and rnd.random() < 0.5:
        ops.append("a%d" % rnd.choice([0, 1]))
    headers = []
    block = b""
    if rnd.random() < 0.5:
        block += b"Status: 200 OK\r\n"
    block += b"Content-Type: text/plain\r\n"
    for i in range(rnd.choice([0, 1, 3])):
        n = b"X-Raw%d" % i
        v = rnd.choice([b"v", b"two words", b"b" * 300, b"semi;colon=1"])
        headers.append((n, v))
        block += n + rnd.choice([b": ", b":"]) + v + b"\r\n"
    block += b"\r\n"
    expected = bytearray()
    tail = rnd.choice([b"", b"", b"B", b"body-in-the-same-write\r\n\r\nX: y\r\n"])
    lit = block + tail
    expected += tail
    # cut the literal anywhere (also inside CRLF CRLF)
    cuts = sorted(set(rnd.randrange(1, len(lit)) for _ in range(rnd.choice([0, 1, 2, 5, 12]))))
    if rnd.random() < 0.3:
        cuts = sorted(set(cuts + [len(block) - 1, len(block) - 2, len(block) - 3]))
    prev = 0
    for c in cuts + [len(lit)]:
        if c <= prev:
            continue
        ops.append("L" + lit[prev:c].hex())
        prev = c
        r = rnd.random()
        if r < 0.3:
            ops.append("f")
        elif r < 0.4 and is_async:
            ops.append("F")
    pid = rnd.randrange(1, 1000)
    for i in range(rnd.choice([0, 1, 2, 5])):
        size = rnd.choice([0, 1, 7, 64, 255, 1000, 4096, 8192, 65535, 65543] if allow_big else [0, 1, 7, 64, 255, 1000, 4096])
        ops.append("%s%d.%d" % (rnd.choice("wwo"), size, pid + i))
        expected += pat(pid + i, size)
        r = rnd.random()
        if r < 0.25:
            ops.append("f")
        elif r < 0.35 and is_async:
            ops.append("F")
    return ops, bytes(expected), headers, [], mode


def gen_script(rnd, is_async, allow_big):
    ops = []
    expected = bytearray()
    headers = []
    cookies = []
    # set-up operations come before the first byte of output
    if rnd.random() < 0.6:
        ops.append("b%d" % rnd.choice([0, 1, 2, 64, 1024, 16384, 65536]))
    mode = None
    if rnd.random() < 0.2:
        return gen_raw_script(rnd, is_async, allow_big, ops)
    if not is_async:
        if rnd.random() < 0.7:
            mode = rnd.choice([0, 1])
            ops.append("m%d" % mode)
    else:
        if rnd.random() < 0.5:
            ops.append("a%d" % rnd.choice([0, 1]))
    for i in range(rnd.choice([0, 0, 1, 3])):
        n = b"X-H%d" % i
        v = rnd.choice([b"v", b"two words", b"a" * 200, b"semi;colon=1", b"\"q\""])
        headers.append((n, v))
        ops.append("h%s.%s" % (n.hex(), v.hex()))
    for i in range(rnd.choice([0, 0, 1, 2])):
        n = b"ck%d" % i
        v = rnd.choice([b"1", b"abc", b"x" * 100])
        cookies.append((n, v))
        ops.append("c%s.%s" % (n.hex(), v.hex()))
    nw = rnd.choice([0, 1, 1, 2, 3, 6, 12])
    pid = rnd.randrange(1, 1000)
    for i in range(nw):
        size = rnd.choice([0, 1, 2, 7, 8, 63, 64, 65, 255, 1000, 4096, 8191, 8192, 16384, 65535, 65536, 65543, 131070, 200000] if allow_big else [0, 1, 2, 7, 8, 63, 64, 65, 255, 1000, 4096])
        if size > 200000:
            size = 200000
        if rnd.random() < 0.3:
            size = rnd.randrange(0, 3000)
        kind = rnd.choice("wwwwo") if size > 64 else rnd.choice("wwop")
        ops.append("%s%d.%d" % (kind, size, pid + i))
        expected += pat(pid + i, size)
        r = rnd.random()
        if r < 0.25:
            ops.append("f")
        elif r < 0.32:
            ops.append("b%d" % rnd.choice([0, 1, 64, 4096]))
        elif r < 0.40 and is_async:
            ops.append("F")
    if rnd.random() < 0.15:
        # the application announces the length itself (response().content_length(n)): the body must then go out as it is
        headers.append((b"Content-Length", b"%d" % len(expected)))
        k = 0
        while k < len(ops) and ops[k][0] in "bma":
            k += 1
        ops.insert(k, "h%s.%s" % (b"Content-Length".hex(), (b"%d" % len(expected)).hex()))
    if is_async and rnd.random() < 0.15:
        # the application finalizes the response itself, flushes asynchronously and then completes it: still one end-of-response marker
        ops += ["Z", "F"]
    return ops, bytes(expected), headers, cookies, mode


def deframe(pn, raw, reqid=1):
    """returns dict(status, hd, body, errors, info)"""
    if pn.startswith("http"):
        r = proto.http_parse_response(raw)
        if r.get("rest"):
            r["errors"].append("%d bytes after the framed body" % len(r["rest"]))
        return r
    if pn == "scgi":
        return proto.cgi_parse_response(raw)
    f = proto.fcgi_parse_response(raw, reqid)
    out = dict(f["cgi"])
    out["errors"] = list(f["errors"]) + list(out.get("errors", []))
    if f["end"] is None:
        out["errors"].append("no END_REQUEST")
    elif f["end"] != (0, 0):
        out["errors"].append("END_REQUEST status %r" % (f["end"],))
    if f["rest"]:
        out["errors"].append("%d bytes after END_REQUEST" % len(f["rest"]))
    if f["stderr"]:
        out["errors"].append("STDERR output %r" % f["stderr"][:60])
    out["max_record"] = f["max_record"]
    out["records"] = f["records"]
    return out


def aborted_client_and_page_cache(S, rnd, windex, cnt, res):
    """a client that resets its connection while a page that is being copied to the cache is still rendered must not leave
    a truncated page behind: the next client asking for the same key gets every byte the application writes for that page"""
    for variant in range(2):
        is_async = (windex + variant) % 2 == 1
        key = b"abort-page-%d-%d" % (windex, variant)
        n = rnd.choice([100000, 180000, 65536 * 3 + 7])
        pid = rnd.randrange(1, 1000)
        pieces = rnd.choice([1, 4, 16])
        sizes = [n // pieces] * (pieces - 1) + [n - (n // pieces) * (pieces - 1)]
        expected = b"".join(pat(pid + i, sz) for i, sz in enumerate(sizes))
        ops = (["m1"] if not is_async else []) + ["K" + key.hex(), "T" + (key + b"-t").hex()] + ["w%d.%d" % (sz, pid + i) for i, sz in enumerate(sizes)]
        if variant == 0 and not is_async:
            # the page is rendered through template filters (escape / urlencode of streamed objects), which put their own stream
            # buffer on the response stream for the duration of the object
            def html(b):
                return b.replace(b"&", b"&amp;").replace(b"<", b"&lt;").replace(b">", b"&gt;").replace(b'"', b"&quot;").replace(b"'", b"&#39;")
            lines = rnd.choice([400, 1500])
            fops, fexp = [], b""
            for i in range(lines):
                sz = rnd.choice([40, 90, 200])
                if i % 2 == 0:
                    fops.append("e%d.%d" % (sz, pid + i)); fexp += html(pat(pid + i, sz))
                else:
                    fops.append("u%d.%d" % (sz, pid + i)); fexp += b"".join(bytes([c]) if (48 <= c <= 57 or 65 <= c <= 90 or 97 <= c <= 122 or c in b"-_.~") else b"%%%02x" % c for c in pat(pid + i, sz))
            ops = ["m1", "K" + key.hex(), "T" + (key + b"-t").hex()] + fops
            expected = fexp
            cnt("aborted_client_page_rounds_through_filters")
        if variant == 1 and not is_async:
            # the page ends with a cached frame (copy_filter + store_frame, the documented pattern) rendered after the client has gone
            n_frame = rnd.choice([500, 20000])
            ops += ["C%s.%s" % ((key + b"-frame").hex(), (b"%d" % n_frame).hex()), "w10.3"]
            expected += pat(7, n_frame) + pat(3, 10)
            cnt("aborted_client_page_rounds_with_a_frame")
        q = b"s=" + ",".join(ops).encode()
        app = b"/awriter" if is_async else b"/writer"
        tok1 = b"AB%d-%da" % (windex, variant)
        r1 = proto.Req(method=b"GET", script=app, query=q + b"&tok=" + tok1, token=tok1)
        c = srv.Conn(S, "http", timeout=10, rcvbuf=4096)
        try:
            c.send(proto.http_encode(r1, version=b"1.0"))
            c.s.settimeout(5)
            try:
                c.s.recv(1000)
            except OSError:
                pass
            c.reset()
        finally:
            c.close()
        tk = tok1.decode()
        S.wait_events(lambda evs: any(e.get("token") == tk and e.get("ev") in ("written", "async_flush_aborted") for e in evs), 15)
        time.sleep(0.05)
        tok2 = b"AB%d-%db" % (windex, variant)
        r2 = proto.Req(method=b"GET", script=app, query=q + b"&tok=" + tok2, token=tok2)
        c = srv.Conn(S, "http", timeout=20)
        try:
            c.send(proto.http_encode(r2, version=b"1.0"))
            raw, _ = c.recv_all(30)
        finally:
            c.close()
        d = proto.http_parse_response(raw)
        cnt("aborted_client_page_rounds")
        rp = {"script": q.decode()[:300], "expected_len": len(expected), "async": is_async}
        if d["status"] != 200 or d["errors"]:
            res["viol"].append({"key": "c03:response-framing:http-after-aborted-client", "detail": "status %r errors %r" % (d["status"], d["errors"][:3]), "replay": rp})
            return
        if d["body"] != expected:
            res["viol"].append({"key": "c03:page-cache-serves-what-an-aborted-client-left-behind", "detail": "the client after one that reset its connection mid-page got %d bytes, the application writes %d for this page" % (len(d["body"]), len(expected)), "replay": rp})
            return


def aborted_client_and_frame_cache(S, rnd, windex, cnt, res):
    """the frame counterpart: a frame rendered through copy_filter while the client has already gone must not be cached empty or cut"""
    for variant in range(2):
        key = b"abort-frame-%d-%d" % (windex, variant)
        n_before = rnd.choice([6000000, 7000000])      # more than the kernel lets a socket buffer (tcp_wmem max 4 MiB), so the write meets the reset
        n_frame = rnd.choice([20000, 40000, 100000])
        pid = rnd.randrange(1, 1000)
        ops = ["m1", "w%d.%d" % (n_before, pid), "f", "C%s.%s" % (key.hex(), (b"%d" % n_frame).hex()), "w10.3"]
        expected = pat(pid, n_before) + pat(7, n_frame) + pat(3, 10)
        q = b"s=" + ",".join(ops).encode()
        tok1 = b"AF%d-%da" % (windex, variant)
        r1 = proto.Req(method=b"GET", script=b"/writer", query=q + b"&tok=" + tok1, token=tok1)
        c = srv.Conn(S, "http", timeout=10, rcvbuf=4096)
        try:
            c.send(proto.http_encode(r1, version=b"1.0"))
            c.s.settimeout(5)
            try:
                c.s.recv(1000)
            except OSError:
                pass
            c.reset()
        finally:
            c.close()
        tk = tok1.decode()
        S.wait_events(lambda evs: any(e.get("token") == tk and e.get("ev") == "written" for e in evs), 15)
        tok2 = b"AF%d-%db" % (windex, variant)
        r2 = proto.Req(method=b"GET", script=b"/writer", query=q + b"&tok=" + tok2, token=tok2)
        c = srv.Conn(S, "http", timeout=20)
        try:
            c.send(proto.http_encode(r2, version=b"1.0"))
            raw, _ = c.recv_all(30)
        finally:
            c.close()
        d = proto.http_parse_response(raw)
        cnt("aborted_client_frame_rounds")
        rp = {"script": q.decode()[:300], "expected_len": len(expected)}
        if d["status"] != 200 or d["errors"]:
            res["viol"].append({"key": "c03:response-framing:http-after-aborted-client", "detail": "status %r errors %r" % (d["status"], d["errors"][:3]), "replay": rp})
            return
        if d["body"] != expected:
            res["viol"].append({"key": "c03:frame-cache-serves-what-an-aborted-client-left-behind", "detail": "the client after one that reset its connection before a cached frame was rendered got %d bytes, the application writes %d (frame of %d)" % (len(d["body"]), len(expected), n_frame), "replay": rp})
            return


def handler_throws_before_output(S, rnd, windex, cnt, res):
    """a handler that has set headers (a length, a type, an encoding) and then throws before writing anything: the framework's error page
    goes out in its place - under one header block that frames THAT page, so that a kept-alive connection stays usable"""
    hdrs = [(b"Content-Length", b"1000"), (b"Content-Type", b"application/json"), (b"Content-Encoding", b"gzip"), (b"X-Other", b"v"), (b"Content-Length", b"3")]
    for variant in range(windex % 2, 10, 2):
        is_async = variant >= 5
        hn, hv = hdrs[variant % 5]
        app = b"/awriter" if is_async else b"/writer"
        q = b"s=h%s.%s,X" % (hn.hex().encode(), hv.hex().encode())
        tok = b"EX%d-%d" % (windex, variant)
        first = proto.Req(method=b"GET", script=app, query=q + b"&tok=" + tok, token=tok)
        second = proto.Req(method=b"GET", script=b"/writer", query=b"s=w10.1&tok=" + tok + b"n", token=tok + b"n")
        c = srv.Conn(S, "http", timeout=10)
        try:
            c.send(proto.http_encode(first, version=b"1.1", keep_alive=True))
            m1, closed = c.recv_until(srv.http_message_length, timeout=6)
            rp = {"first": q.decode(), "async": is_async}
            d1 = proto.http_parse_response(m1) if m1 else {"status": None, "errors": ["no response"], "hd": {}}
            cnt("handler_exception_rounds")
            if d1["status"] != 500 or d1["errors"] or d1.get("rest"):
                res["viol"].append({"key": "c03:error-page-for-a-throwing-handler-is-not-framed", "detail": "handler set %s: %s and threw; answer: status %r errors %r raw %r" % (hn.decode(), hv.decode(), d1["status"], d1["errors"][:2], m1[:200]), "replay": rp})
                return
            if closed:
                cnt("handler_exception_rounds_connection_closed")
                continue
            c.send(proto.http_encode(second, version=b"1.1", keep_alive=False))
            m2, _ = c.recv_all(10)
        finally:
            c.close()
        d2 = proto.http_parse_response(m2)
        if d2["status"] != 200 or d2["errors"] or d2["body"] != pat(1, 10):
            res["viol"].append({"key": "c03:request-after-a-throwing-handler-on-the-same-connection-not-served", "detail": "status %r errors %r body %r" % (d2["status"], d2["errors"][:2], d2["body"][:40]), "replay": rp})
            return


def keepalive_header_isolation(S, rnd, windex, cnt, res):
    """on one kept-alive HTTP connection: a request whose response carries a cookie and a header, then requests served in raw /
    asynchronous_raw mode whose application writes no header block, an unterminated one, or a complete one: every response must carry
    only what ITS application set ('exactly one header block carrying every header and cookie the application set')"""
    for variant in range(windex % 3, 6, 3):
        is_async = variant >= 3
        app = b"/awriter" if is_async else b"/writer"
        mode = 4 if is_async else 2
        secret = b"secret-%d-%d" % (windex, variant)
        first = proto.Req(method=b"GET", script=rnd.choice([b"/writer", b"/awriter"]), query=b"s=c%s.%s,h%s.%s,w10.1&tok=HA%d" % (b"sid".hex().encode(), secret.hex().encode(), b"X-Private".hex().encode(), secret.hex().encode(), variant), token=b"HA%d" % variant)
        lit = [b"", b"X-Unfinished: 1\r\n", b"Content-Type: text/plain\r\nX-Own: mine\r\n\r\nBODY"][variant % 3]
        script = b"m%d" % mode + (b",L" + lit.hex().encode() if lit else b"")
        second = proto.Req(method=b"GET", script=app, query=b"s=" + script + b"&tok=HB%d" % variant, token=b"HB%d" % variant)
        c = srv.Conn(S, "http", timeout=10)
        try:
            c.send(proto.http_encode(first, version=b"1.1", keep_alive=True))
            m1, closed = c.recv_until(srv.http_message_length, timeout=10)
            d1 = proto.http_parse_response(m1)
            if d1["status"] != 200 or secret not in m1:
                res["viol"].append({"key": "harness:keepalive-header-isolation-setup", "detail": repr(m1[:200]), "replay": None})
                return
            if closed:
                cnt("header_isolation_connection_not_kept")
                continue
            c.send(proto.http_encode(second, version=b"1.1", keep_alive=False))
            m2, _ = c.recv_all(6)
        finally:
            c.close()
        cnt("header_isolation_pairs")
        if secret in m2 or b"X-Private" in m2:
            res["viol"].append({"key": "c03:response-carries-headers-of-the-previous-request-on-the-connection", "detail": "second request (io mode %d, application wrote %r) answered with %r" % (mode, lit[:30], m2[:300]),
                                "replay": {"first": first.query.decode(), "second": second.query.decode()}})
            return
        if variant % 3 == 2:
            d2 = proto.http_parse_response(m2)
            if d2["status"] != 200 or d2["body"] != b"BODY" or d2["hd"].get(b"x-own") != [b"mine"]:
                res["viol"].append({"key": "c03:raw-mode-response-differs-from-what-the-application-wrote", "detail": repr(m2[:300]), "replay": {"second": second.query.decode()}})
                return


def worker(args):
    basedir, exe, seed, ncases, windex = args
    rnd = random.Random(seed)
    res = {"viol": [], "counters": {}, "samples": [], "fail": None, "shapes": set()}

    def cnt(k, n=1):
        res["counters"][k] = res["counters"].get(k, 0) + n
    S = None
    try:
        # every fourth server runs with a global C++ locale that groups digits, as an application that calls std::locale::global() has it
        grouping = windex % 4 == 3
        S = srv.Server(basedir, exe, "srv%d" % windex, env={"VSRV_GROUPING_LOCALE": "1"} if grouping else None)
        if grouping:
            cnt("servers_with_a_grouping_global_locale")
        keepalive_header_isolation(S, rnd, windex, cnt, res)
        if not res["viol"]:
            handler_throws_before_output(S, rnd, windex, cnt, res)
        if not res["viol"]:
            aborted_client_and_page_cache(S, rnd, windex, cnt, res)
        if not res["viol"]:
            aborted_client_and_frame_cache(S, rnd, windex, cnt, res)
        for ci in range(ncases):
            if res["viol"]:
                break
            is_async = rnd.random() < 0.5
            pn = rnd.choice(["http10", "http11", "http11ka", "scgi", "fastcgi"])
            gzip_ok = rnd.random() < 0.4
            ops, expected, headers, cookies, mode = gen_script(rnd, is_async, allow_big=(ci % 3 == 0))
            key = None
            if mode not in (2, 4) and rnd.random() < 0.25:
                key = b"page-%d-%d" % (windex, ci)
                trig = b"trig-%d-%d" % (windex, ci)
                k = 0
                while k < len(ops) and (ops[k][0] in "bma" or ops[k].startswith("h" + b"Content-Length".hex())):
                    k += 1          # what decides about compression (mode, an announced length) is settled before the page is looked up
                ops = ops[:k] + ["K" + key.hex(), "T" + trig.hex()] + ops[k:]
            script = ",".join(ops)
            tok = b"W%d-%d" % (windex, ci)
            r = proto.Req(method=b"GET", script=b"/awriter" if is_async else b"/writer", path_info=b"", query=b"s=" + script.encode() + b"&tok=" + tok,
                          headers=[(b"Accept-Encoding", b"gzip")] if gzip_ok else [], token=tok)
            # write schedule
            wk = rnd.randrange(7)
            if wk == 0:
                wsched = None
            elif wk == 1:
                wsched = [1] * rnd.choice([20, 200, 2000])
            elif wk == 2:
                wsched = [rnd.choice([1, 2, 3, 5, 8, 13, 100, 1000]) for _ in range(400)]
            elif wk == 3:
                wsched = [rnd.choice([-1, 1, -1, 7, 64]) for _ in range(300)]
            elif wk == 4:
                wsched = [rnd.choice([-1, -1, -1, 1]) for _ in range(60)] + [rnd.choice([3, 500]) for _ in range(200)]
            elif wk == 5:
                wsched = [rnd.choice([8, 16, 65535, 65536 + 8, 4095, 4096, 4097]) for _ in range(100)]
            else:
                wsched = [rnd.choice([1, 1, 1, 100000]) for _ in range(500)]
            shape = (pn, is_async, mode, gzip_ok, wk, key is not None, len(expected) > 65535)
            res["shapes"].add(shape)
            rp = {"proto": pn, "script": script[:3000], "gzip": gzip_ok, "wsched": (wsched or [])[:60], "expected_len": len(expected)}
            rounds = 1 if key is None else 3
            first_body = None
            for rd in range(rounds):
                if pn.startswith("http"):
                    data = proto.http_encode(r, version=b"1.0" if pn == "http10" else b"1.1", keep_alive=(pn == "http11ka"))
                    cproto = "http"
                elif pn == "scgi":
                    data = proto.scgi_encode(r)
                    cproto = "scgi"
                else:
                    data = proto.fcgi_encode(r, keep_conn=False)
                    cproto = "fastcgi"
                if rd == 2:
                    # the library sends the response before it stores the page (cache_interface::store_page finalizes first), so a
                    # handler may still be about to store when its client already has the answer: the rise must not race with that
                    # store ("store after rise" is a legal order in which the page stays cached). Wait for both handlers to finish.
                    tk = tok.decode()
                    if not S.wait_events(lambda evs: sum(1 for e in evs if e.get("token") == tk and e.get("ev") == "written") >= 2, 10):
                        cnt("page_rounds_inconclusive")
                        break
                    # raise the trigger through another request, then ask again: the page must be rebuilt
                    rr = proto.Req(method=b"GET", script=b"/writer", query=b"s=R" + trig.hex().encode() + b"&tok=" + tok + b"r", token=tok + b"r")
                    c = srv.Conn(S, "http")
                    c.send(proto.http_encode(rr))
                    c.recv_all(10)
                    c.close()
                c = srv.Conn(S, cproto, w=wsched, timeout=20, rcvbuf=(4096 if rnd.random() < 0.2 else None))
                try:
                    c.send(data)
                    if pn == "http11ka":
                        raw, closed = c.recv_until(srv.http_message_length, timeout=30)
                    else:
                        raw, closed = c.recv_all(30, slow=(512 if rnd.random() < 0.1 else None))
                finally:
                    c.close()
                cnt("responses")
                cnt("responses_" + pn)
                d = deframe(pn, raw)
                where = "%s%s" % (pn, "-async" if is_async else "-sync")
                if d["errors"] or d["status"] != 200:
                    res["viol"].append({"key": "c03:response-framing:" + where, "detail": "status %r errors %r (round %d)" % (d["status"], d["errors"][:3], rd), "replay": rp})
                    break
                hd = d["hd"]
                body = d["body"]
                enc = hd.get(b"content-encoding", [b""])[0]
                plain = body
                if enc == b"gzip":
                    if not gzip_ok:
                        res["viol"].append({"key": "c03:gzip-although-not-accepted:" + where, "detail": "", "replay": rp})
                        break
                    try:
                        plain = proto.gunzip(body)
                    except Exception as e:  # noqa
                        res["viol"].append({"key": "c03:gzip-stream-corrupt:" + where, "detail": repr(e), "replay": rp})
                        break
                    cnt("gzip_responses")
                if plain != expected:
                    # first difference
                    k = next((i for i in range(min(len(plain), len(expected))) if plain[i] != expected[i]), min(len(plain), len(expected)))
                    res["viol"].append({"key": "c03:body-differs-from-what-the-application-wrote:" + where, "detail": "got %d bytes, application wrote %d, first difference at offset %d (round %d)" % (len(plain), len(expected), k, rd), "replay": rp})
                    break
                cnt("bytes_compared", len(expected))
                if mode in (2, 4):
                    cnt("raw_mode_responses")
                if b"content-length" in hd and int(hd[b"content-length"][0]) != len(body):
                    res["viol"].append({"key": "c03:content-length-wrong:" + where, "detail": "", "replay": rp})
                    break
                if rd == 0 or rd == 2:
                    bad = None
                    for n, v in headers:
                        if hd.get(n.lower()) != [v]:
                            bad = "header %r: %r" % (n, hd.get(n.lower()))
                    got_ck = hd.get(b"set-cookie", [])
                    for n, v in cookies:
                        if sum(1 for x in got_ck if x.startswith(n + b"=" + v)) != 1:
                            bad = "cookie %r: %r" % (n, got_ck)
                    if bad:
                        evs_tok = [e for e in S.events() if tok.decode() in str(e.get("token", ""))]
                        res["viol"].append({"key": "c03:header-or-cookie-missing-or-duplicated:" + where, "detail": bad + " (round %d) app events for this request: %r; response headers: %r" % (rd, evs_tok[-8:], sorted(hd.items())[:12]), "replay": rp})
                        break
                if pn == "fastcgi" and d.get("max_record", 0) and len(body) > 65535:
                    cnt("fastcgi_bodies_over_65535")
                if d.get("framing") == "chunked":
                    cnt("chunked_responses")
                if rd == 0:
                    first_body = body
                elif rd == 1 and body != first_body:
                    res["viol"].append({"key": "c03:cached-page-differs-from-what-was-sent:" + where, "detail": "%d vs %d bytes" % (len(body), len(first_body)), "replay": rp})
                    break
                elif rd == 1:
                    cnt("cached_pages_compared")
            if ci < 2:
                res["samples"].append({"proto": pn, "script": script[:200], "write_schedule": (wsched or [])[:12], "body_len": len(expected)})
        S.stop()
        key, detail = S.death_report()
        if key:
            res["viol"].append({"key": key, "detail": detail, "replay": None})
        evs = S.events()
        hits = sum(1 for e in evs if e.get("ev") == "cache_hit")
        res["counters"]["cache_hits_seen_by_app"] = hits
        short = 0
        eag = 0
        for e in evs:
            if e.get("ev") == "io":
                short += sum(1 for x in e["writes"] if x <= 8)
                eag += e.get("eagain", 0)
        res["counters"]["short_writes_injected"] = short
        res["counters"]["would_block_injected"] = eag
        res["counters"]["pending_output_seen"] = sum(1 for e in evs if e.get("pending") is True)
    except Exception as e:  # harness failure
        import traceback
        res["fail"] = "%r\n%s\n%s" % (e, traceback.format_exc()[-1500:], S.stderr()[-800:] if S else "")
        if S:
            S.stop()
    res["shapes"] = sorted(map(repr, res["shapes"]))
    return res


def run(ck):
    exe = ck.build("asan", ["vsrv"])["vsrv"]
    thorough = ck.tier == "thorough"
    n = int((36000 if thorough else 130) * ck.scale)
    args = [(ck.rundir, exe, sa.subseed(ck, i), n, i) for i in range(16)]
    results = c01.run_workers(ck, worker, args)
    shapes = set()
    for r in results:
        shapes |= set(r.get("shapes", ()))
    ck.distinct["shapes"] = shapes
    ck.assumptions += [
        "expected bytes are recomputed by the driver from the script the application executes (deterministic patterns per write); headers/cookies set by the script must appear exactly once",
        "the writev() shim accepts only a scheduled prefix or, on non-blocking descriptors only, reports EAGAIN - both are what a real socket may do",
        "io modes raw / asynchronous_raw: the application writes a CGI-style header block (Status/Content-Type/X-Raw*) cut anywhere across writes and flushes, then the body; the page cache is not combined with raw modes",
    ]
    ck.finish("fault_enumeration",
              "scripts of writes (0..131070 bytes each, via write/<</put), flushes, setbuf(0..65536), io_mode normal/nogzip/raw/asynchronous_raw (raw: header block written by the application, cut anywhere), full/partial asynchronous buffering, asynchronous flushes, headers and cookies, executed by sync and async "
              "applications over HTTP/1.0, HTTP/1.1 close and keep-alive (chunked), SCGI and FastCGI with and without gzip, under writev schedules (1-byte, tiny, EAGAIN runs, record/chunk boundaries) and slow readers; "
              "independent de-framers validate framing strictly and the body (gunzipped if needed) must equal the concatenation of the writes; page-cache copies must be byte-identical to what was sent and vanish when "
              "their trigger is raised. non-trivial = distinct (protocol, app kind, mode, gzip, schedule kind, cache, >64K) shapes",
              "responses", "shapes", min_evals=1500,
              required_nonzero=("bytes_compared", "gzip_responses", "chunked_responses", "cached_pages_compared", "short_writes_injected", "would_block_injected", "fastcgi_bodies_over_65535", "cache_hits_seen_by_app", "raw_mode_responses",
                                "handler_exception_rounds", "aborted_client_page_rounds", "aborted_client_page_rounds_through_filters", "aborted_client_page_rounds_with_a_frame", "aborted_client_frame_rounds", "servers_with_a_grouping_global_locale"))
