"""C12 - uploaded form data is reconstructed exactly under any chunking, within limits."""
import os
from .. import standalone as sa


def run(ck):
    asan = ck.build("asan", ["mp_mon"])["mp_mon"]
    thorough = ck.tier == "thorough"
    k = (40 if thorough else 1) * ck.scale
    jobs = []
    for i in range(10):
        jobs.append(dict(exe=asan, args=["--mode", "random", "--cases", int(60 * k), "--seed", sa.subseed(ck, i), "--tmp", os.path.join(ck.rundir, "tmp-r%d" % i)], label="random%d" % i, timeout=14400))
    for i in range(6):
        jobs.append(dict(exe=asan, args=["--mode", "allcuts", "--cases", int(25 * k), "--seed", sa.subseed(ck, 50 + i), "--tmp", os.path.join(ck.rundir, "tmp-a%d" % i)], label="allcuts%d" % i, timeout=14400))
    sa.run_jobs(ck, jobs, sets=("bodies",))
    if thorough:
        from .. import fuzz
        seeds = [b'\x00\x01--XyZ\r\nContent-Disposition: form-data; name="a"\r\n\r\nv\r\n--XyZ\r\nContent-Disposition: form-data; name="f"; filename="x"\r\nContent-Type: text/plain\r\n\r\n\r\n--Xy\r\n--XyZ--\r\n']
        fuzz.run_libfuzzer(ck, "mp_fuzz", seconds=int(600 * ck.scale), jobs=16, key_prefix="multipart:fuzz", max_len=2048, seeds=seeds)
    from . import c12_e2e
    c12_e2e.run(ck)
    ck.assumptions += [
        "the in-process driver replicates request::on_content_progress's consume loop (chunks copied into exact-size heap blocks); the real loop, limits, filters and temp-file clean-up are exercised end-to-end by the server harness part",
        "boundaries are drawn from RFC 2046 bchars (1..70 chars); part contents never contain the full delimiter",
    ]
    ck.finish("exploration",
              "generated part lists (0..10 parts, contents made of random bytes, CR/LF/dash runs, every proper prefix of the delimiter followed by a non-matching byte, the delimiter minus its last byte; quoted/unquoted "
              "parameters, header case and spacing variants, boundaries of 1..70 bchars) encoded by an independent encoder and decoded under every 1-cut and 2-cut of short bodies, fixed chunk sizes 1..64 KiB and random "
              "k-cuts around delimiter occurrences, with in-memory limits forcing spills to temporary files (directory empty afterwards); truncated/extended/unclosed bodies must be refused and every mutated body must "
              "give the same outcome under any chunking; end to end through http/scgi/fastcgi (plain, multipart-filter and raw-filter applications, request().setbuf 1..64 KiB, read schedules): parts delivered exactly, bodies over "
              "the content/multipart/field limits answered 413, bad/unclosed boundaries and bodies longer than declared 400, bodies shorter than declared never delivered, filters see every byte once (also filters that read each part's data stream to its end, or take themselves off the request at the n-th callback), on_error at most once, "
              "uploads directory empty after every request. non-trivial = distinct bodies",
              "partitions", "bodies", min_evals=20000,
              required_nonzero=("bodies_with_all_cuts", "partitions_with_spill", "malformed_refused", "malformed_bodies",
                                "uploads_compared", "refusals_checked", "incomplete_checked", "raw_filter_checked", "multipart_filter_checked", "on_error_notifications", "filter_aborts_checked", "uploads_with_an_inspecting_filter", "uploads_with_a_filter_released_half_way"))
