"""C14 - text validators accept exactly the well-formed strings."""
from .. import standalone as sa


def run(ck):
    exe = ck.build("plain", ["utf_mon"])["utf_mon"]
    exe_asan = ck.build("asan", ["utf_mon"])["utf_mon"]
    thorough = ck.tier == "thorough"
    jobs = []
    # exhaustive (thorough) / boundary-grid (quick) enumeration of 4-byte windows, split by lead byte
    nparts = 32
    for i in range(nparts):
        lo, hi = 256 * i // nparts, 256 * (i + 1) // nparts
        a = ["--mode", "enum", "--from", lo, "--to", hi]
        if not thorough:
            a.append("--quick")
        if i == 0:
            a.append("--short")
        jobs.append(dict(exe=exe, args=a, label="enum%d" % i, timeout=3600))
    ncases = int((4000000 if thorough else 30000) * ck.scale)
    for i in range(8):
        jobs.append(dict(exe=exe, args=["--mode", "strings", "--cases", ncases, "--seed", sa.subseed(ck, i)], label="strings%d" % i))
    # same oracles under ASan+UBSan on a sample (out-of-range reads by the decoders / filters)
    for i in range(4):
        jobs.append(dict(exe=exe_asan, args=["--mode", "strings", "--cases", ncases // 4, "--seed", sa.subseed(ck, 100 + i)], label="strings-asan%d" % i))
    jobs.append(dict(exe=exe_asan, args=["--mode", "codepages"], label="codepages"))
    jobs.append(dict(exe=exe_asan, args=["--mode", "enum", "--from", 0xE0, "--to", 0xE1, "--quick", "--short"], label="enum-asan", timeout=3600))
    sa.run_jobs(ck, jobs, sets=("strings", "codepage_tables"))
    c = ck.counters
    c["evaluations_total"] = c.get("decode_cases", 0) + c.get("strings", 0) + c.get("codepage_bytes", 0) + c.get("codepage_pairs", 0)
    c["nontrivial_total"] = c.get("decode_nonascii_lead", 0) + len(ck.distinct.get("strings", ())) + c.get("codepage_pairs", 0)
    ck.assumptions += [
        "reference decoder written from Unicode Table 3-7 is correct",
        "U+007F is a don't-care in HTML-safe mode (statement names C0/C1 only); TAB/LF/CR are don't-cares for single-byte validators",
        "next-character functions read at most 4 bytes, so windows of length 1..4 decide them",
    ]
    ck.finish("exploration",
              "enumeration of byte windows of length 1..3 (all) and 4 (%s) for cppcms::utf8::next plain/html and booster utf_traits<char>::decode, each compared with a Table 3-7 reference; "
              "random strings of valid/invalid pieces for whole-string validators, counters, booster utf_to_utf and validate_or_filter; all bytes and byte pairs for 46 code-page names. "
              "non-trivial = windows with a non-ASCII lead byte + distinct random strings + byte pairs" % ("all 2^32" if thorough else "all (b0,b1) x 19x19 boundary values of b2,b3"),
              "evaluations_total", "nontrivial_total", min_evals=1000000,
              exhaustive=True if thorough else False,
              required_nonzero=("decode_cases", "strings", "codepage_pairs", "filtered"))
