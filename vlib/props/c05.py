"""C05 - client-side sessions are accepted only if issued by this server and unexpired."""
from .. import standalone as sa


def run(ck):
    asan = ck.build("asan", ["sess_mon"])["sess_mon"]
    thorough = ck.tier == "thorough"
    rounds = int((6000 if thorough else 30) * ck.scale)
    jobs = []
    for cfg in range(16):
        a = ["--rounds", rounds, "--seed", sa.subseed(ck, cfg), "--config", cfg]
        if thorough or cfg % 4 == 0:
            a.append("--exhaustive")
        jobs.append(dict(exe=asan, args=a, label="cfg%d" % cfg, timeout=14400))
    if thorough:
        plain = ck.build("plain", ["sess_mon"])["sess_mon"]
        for i in range(4):
            jobs.append(dict(exe="valgrind", args=["-q", "--error-exitcode=97", plain, "--rounds", 3, "--seed", sa.subseed(ck, 100 + i), "--config", i * 5], label="memcheck%d" % i, timeout=14400))
    sa.run_jobs(ck, jobs, sets=("cookies",))
    c = ck.counters
    c["cookies_total"] = c.get("genuine_cookies", 0) + c.get("tampered_cookies", 0) + c.get("arbitrary_cookies", 0)
    ck.assumptions += [
        "cookies are tampered with at the level of the decoded cipher text and re-encoded with the monitor's own base64url encoder (cppcms's decoder is lenient about non-alphabet characters)",
        "confidentiality is judged only through necessary conditions (fresh cipher text for equal payloads, no 8-byte payload window in the cipher text, length depends on length only); it is a hyperproperty this family cannot decide",
        "virtual clock through a link-time time() shim",
    ]
    ck.finish("exploration",
              "16 key materials (hmac-md5..sha512 with keys of 16..129 bytes, aes-128/192/256 with split cbc/hmac keys and with combined or derived keys) x payloads 0..64 KiB (all lengths to 80, block edges) x expiry "
              "from far past to far future around now: genuine cookies load exactly while unexpired (also at the deadline second, also through a long-lived object); every single-bit flip (all for cipher texts <= 140 bytes), "
              "every truncation, extensions, prefixes, block swaps, splices of two genuine cookies, MAC transplants, cookies of other keys/algorithms and arbitrary strings must be rejected with the cookie cleared; whenever "
              "load succeeds its result is a recorded save; weak/inconsistent configurations are refused. non-trivial = distinct genuine cipher texts (each the origin of ~100..1000 tampered ones)",
              "cookies_total", "cookies", min_evals=50000,
              required_nonzero=("genuine_accepted", "expired_rejected", "tampered_bitflip", "tampered_truncate", "tampered_splice", "tampered_other-key-or-algorithm", "tampered_near-key", "arbitrary_cookies",
                                "confidentiality_checks", "deadline_edge_checks", "configuration_checks", "configured_pairs_identical", "configured_sibling_cbc_key", "configured_sibling_hmac_key", "configured_sibling_key"))
