"""C18 - a crash while saving a file-backed session never yields a corrupted session."""
import os
from .. import standalone as sa


def run(ck):
    asan = ck.build("asan", ["fstore_mon"])["fstore_mon"]
    thorough = ck.tier == "thorough"
    n = int((400 if thorough else 25) * ck.scale)
    jobs = []
    for i in range(16):
        a = ["--cases", n, "--seed", sa.subseed(ck, i), "--dir", os.path.join(ck.rundir, "sess%d" % i)]
        if thorough:
            a.append("--thorough")
        if i == 0:
            a.append("--huge")       # one job only: a reader that trusts the size field would allocate gigabytes
        jobs.append(dict(exe=asan, args=a, label="fstore%d" % i, timeout=14400))
    # "garbage collection ... never removes a live session" also while other threads / processes save: owners save an expired and
    # then a live value under their own id and must load it back, disturbers load the same ids and run gc(); unlink() is delayed
    tsan = ck.build("tsan", ["fstore_conc"])["fstore_conc"]
    conc = ck.build("asan", ["fstore_conc"])["fstore_conc"]
    kc = (20 if thorough else 1) * ck.scale
    for i in range(6):
        a = ["--rounds", int(1500 * kc), "--scenarios", 6, "--delay", [300, 50, 800][i % 3], "--seed", sa.subseed(ck, 100 + i), "--dir", os.path.join(ck.rundir, "conc%d" % i)]
        if i % 3 == 1:
            # with processes: gc/loader processes, pre-forked workers with several threads each, a worker leaving in an orderly way,
            # a worker killed inside save() followed by a probe from another process - 24 scenarios walk through all of them twice
            a.append("--processes")
            a[3] = 24
        jobs.append(dict(exe=(tsan if i % 3 == 2 else conc), args=a, label="conc%d" % i, timeout=14400))
    sa.run_jobs(ck, jobs, sets=("cases", "shapes"))
    ck.assumptions += [
        "a write() of the 16-byte header is atomic with respect to a process kill and, lying inside sector 0, with respect to power loss (as the property states); data-area writes may stop at any byte",
        "sector model: each touched 512-byte sector independently holds its old or its new content; the file length is the larger of the old length and the highest sector that reached the disk",
        "concurrent part: each owner is the only writer of its session id, so after its save of a live value returns, its own load must return exactly that value; disturbers only load and collect garbage; unlink() is delayed by a link-time shim (20-320 us), write() as well in the saver that gets killed",
        "a CRC-32 collision between a torn state and its header would be a genuine acceptance of a mixture (expected once per 2^32 states)",
    ]
    ck.finish("fault_enumeration",
              "for previous file state in {absent, shorter, equal length, longer; one or two generations} x payload sizes {0, 1..40, ~512, ~1024, 2000..6000, 33000..70000} x deadlines past/future: the write() sequence of the new save is recorded by a "
              "link-time shim, then every prefix of it, every byte prefix of the data area (all up to 8 KiB and ~3000 per write beyond in thorough, <=300 per write in quick), subsets of touched 512-byte sectors (all when <=12 sectors in thorough) and real child-process "
              "crashes after exactly k bytes are each followed by the real load(): result must be 'no session' (file unlinked) or a complete earlier/in-flight payload with a deadline of some save that is not in the past; "
              "garbage collection is run on directories of live, expired, unreadable and foreign files against a model. Concurrent part: 1..3 owner threads (expired save, live save, load) against a gc thread and 0..2 loader "
              "threads, and against gc/loader processes forked after the storage was created, for plain-mutex, process-shared-mutex and fcntl locking, under ASan and ThreadSanitizer; pre-forked workers (2..3 processes x 2..3 owner threads plus a loader each, ids spread over the lock slots), the same with one more worker leaving in an orderly way, and a worker killed inside save() followed by load/save probes from another process (a probe that has not returned after 60 s counts as blocked). non-trivial = distinct (old file, new payload) cases",
              "crash_states", "cases", min_evals=20000,
              required_nonzero=("states_prefix", "states_byte_prefix", "states_sector_subset", "states_real_crash", "loads_returning_a_session", "loads_reporting_no_session", "gc_files_judged", "garbage_size_field_cases", "conc_rounds", "conc_gc_runs", "conc_disturber_loads", "unlinks_delayed", "conc_scenarios_processes_fcntl", "conc_scenarios_threads_pshared-mutex",
                                "conc_scenarios_workers_fcntl", "conc_scenarios_workers_pshared-mutex", "conc_scenarios_worker_left_pshared-mutex", "savers_killed_while_saving", "probes_after_killed_saver", "cases_with_payload_over_32k"))
