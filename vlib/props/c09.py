"""C09 - concurrent cache use is race-free and behaves like some sequential order."""
from .. import standalone as sa


def run(ck):
    tsan = ck.build("tsan", ["cache_conc"])["cache_conc"]
    asan = ck.build("asan", ["cache_conc"])["cache_conc"]
    thorough = ck.tier == "thorough"
    k = (25 if thorough else 1) * ck.scale
    jobs = []
    for i in range(8):
        jobs.append(dict(exe=tsan, args=["--mode", "long", "--histories", int(10 * k), "--ops", 300, "--threads", 8, "--yield", [0, 20, 60, 150][i % 4], "--seed", sa.subseed(ck, i)], label="tsan-long-%d" % i, timeout=7200))
    for i in range(6):
        jobs.append(dict(exe=tsan, args=["--mode", "short", "--histories", int(1500 * k), "--yield", [0, 50, 200][i % 3], "--seed", sa.subseed(ck, 20 + i)], label="tsan-short-%d" % i, timeout=7200))
    for i in range(2):
        jobs.append(dict(exe=asan, args=["--mode", "long", "--histories", int(10 * k), "--ops", 400, "--threads", 8, "--yield", 40, "--seed", sa.subseed(ck, 40 + i)], label="asan-long-%d" % i, timeout=7200))
        jobs.append(dict(exe=asan, args=["--mode", "short", "--histories", int(2000 * k), "--yield", 80, "--seed", sa.subseed(ck, 50 + i)], label="asan-short-%d" % i, timeout=7200))
    # "every operation completes" under the cache's typical load: operations that need the exclusive lock while 8 threads keep fetching
    # one hot key, each awaited for 10 s (bounded progress; microseconds of work). The process-shared backend has the same lock design
    # and is driven too.
    plain = ck.build("plain", ["cache_conc"])["cache_conc"]
    for i, (exe, extra) in enumerate([(asan, []), (plain, []), (tsan, []), (asan, ["--shared"])]):
        jobs.append(dict(exe=exe, args=["--mode", "flood", "--readers", 8, "--writes", int(40 * min(k, 5)), "--bound", 10, "--yield", 0, "--seed", sa.subseed(ck, 60 + i)] + extra, label="flood-%d" % i, timeout=7200))
    sa.run_jobs(ck, jobs, sets=("shapes",))
    ck.counters["histories_total"] = ck.counters.get("histories_long", 0) + ck.counters.get("histories_short", 0)
    ck.inconclusive += ck.counters.get("linearizability_inconclusive", 0)
    ck.assumptions += [
        "ThreadSanitizer's happens-before analysis generalises over schedules for the executed operations; booster::mutex/shared_mutex are pthread primitives TSan intercepts",
        "histories are recorded at the client boundary with one steady clock; values are unique so a hit identifies its store",
        "with a size limit a miss may always be an eviction; hits are judged in every configuration",
    ]
    ck.finish("exploration",
              "2..8 threads running random fetch/store/rise/remove/clear/stats over 2..5 keys and 2 triggers on one thread-shared cache (limit 0 or 2..5), seeded yield points between the cache's critical sections, "
              "under ThreadSanitizer and again under ASan; long histories judged by sound stale/torn/foreign-read conditions, short histories (2..3 threads x 2..6 ops) by a full linearizability search against the "
              "sequential model; a watchdog on per-thread progress decides 'every operation completes', and a reader flood (8 threads fetching one hot key without pause, thread-shared and process-shared backends) must not keep a store/rise/remove from returning within 10 s. non-trivial = distinct history shapes",
              "histories_total", "shapes", min_evals=1000,
              required_nonzero=("hits", "misses", "overlapping_pairs", "histories_linearized", "yields_taken", "histories_long", "flood_scenarios", "flood_writes_completed", "flood_fetches"))
