"""End-to-end part of C12: uploads through the real front-ends (limits, filters, temporary files)."""
import json
import os
import random
import time

from .. import proto, srv
from .. import standalone as sa
from . import c01


def fnv(b):
    return c01.fnv(b)


def gen_parts(rnd, boundary):
    parts = []
    for i in range(rnd.choice([0, 1, 1, 2, 3, 6, 10])):
        is_file = rnd.random() < 0.5
        n = rnd.choice([0, 1, 10, 100, 1000, 5000, (262144 if rnd.random() < 0.1 else 70000) if is_file else 2000])
        kind = rnd.randrange(3)
        if kind == 0:
            content = bytes(rnd.getrandbits(8) for _ in range(min(n, 4000))) * (1 if n <= 4000 else n // 4000)
        elif kind == 1:
            full = b"\r\n--" + boundary
            content = b"".join(rnd.choice([full[:rnd.randrange(1, len(full))] + b"X", b"\r\n", b"--", b"-", b"\r", full[:-1], b"text"]) for _ in range(max(1, n // 8)))
        else:
            content = b"line\r\n" * (n // 6)
        content = content.replace(b"\r\n--" + boundary, b"\r\n--" + boundary[:-1] + b"_")
        if not is_file:
            content = content[:6000]
        parts.append({"name": rnd.choice([b"f", b"file", b"field one", b"q\"q", b"n%d" % i]), "filename": (rnd.choice([b"a.txt", b"my file.bin", b"x\"y.dat"]) if is_file else None),
                      "mime": (rnd.choice([b"text/plain", b"application/octet-stream", b"image/png"]) if is_file else None), "content": content})
    return parts


def q(s):
    return b'"' + s.replace(b"\\", b"\\\\").replace(b'"', b'\\"') + b'"'


def encode_multipart(parts, boundary):
    out = bytearray()
    for p in parts:
        out += b"--" + boundary + b"\r\nContent-Disposition: form-data; name=" + q(p["name"])
        if p["filename"] is not None:
            out += b"; filename=" + q(p["filename"])
        out += b"\r\n"
        if p["mime"] is not None:
            out += b"Content-Type: " + p["mime"] + b"\r\n"
        out += b"\r\n" + p["content"] + b"\r\n"
    out += b"--" + boundary + b"--\r\n"
    return bytes(out)


def send_with_declared(S, rnd, pn, r, body, declared, half_close=False):
    """encodes request r with a CONTENT_LENGTH of `declared` while `body` is what is actually sent"""
    import struct
    if pn == "http":
        data = proto.http_encode(r, version=b"1.0").replace(b"Content-Length: %d" % len(r.body), b"Content-Length: %d" % declared, 1)
    elif pn == "scgi":
        env = [(k, (b"%d" % declared if k == b"CONTENT_LENGTH" else v)) for k, v in proto.cgi_env(r)]
        blob = b"".join(k + b"\0" + v + b"\0" for k, v in env)
        data = str(len(blob)).encode() + b":" + blob + b"," + body
    else:
        env = [(k, (b"%d" % declared if k == b"CONTENT_LENGTH" else v)) for k, v in proto.cgi_env(r) if k != b"SCGI"]
        stdin = proto.fcgi_stream(proto.FCGI_STDIN, 1, body, rnd if rnd.random() < 0.5 else None)     # half of the time the whole body is one record
        data = proto.fcgi_record(proto.FCGI_BEGIN, 1, struct.pack(">HB5x", 1, 0)) + proto.fcgi_stream(proto.FCGI_PARAMS, 1, proto.fcgi_pairs(env)) + stdin
    c = srv.Conn(S, pn, timeout=15)
    try:
        c.send(data)
        if half_close:
            c.half_close()
        raw, _ = c.recv_all(15)
    finally:
        c.close()
    return proto.http_parse_response(raw) if pn == "http" else (proto.cgi_parse_response(raw) if pn == "scgi" else proto.fcgi_parse_response(raw)["cgi"])


def urlencoded_case(S, rnd, windex, ci, cnt, res, sent):
    """application/x-www-form-urlencoded and raw bodies: delivered exactly, or refused as a whole"""
    pn = rnd.choice(["http", "scgi", "fastcgi"])
    app = rnd.choice([b"/echo", b"/aecho"])
    tok = b"V%d-%d" % (windex, ci)
    urlenc = rnd.random() < 0.7
    fields = [(rnd.choice([b"a", b"b", b"name", b"k%d" % i]), rnd.choice([b"", b"1", b"two words", b"x=y&z", b"v" * 200])) for i in range(rnd.choice([1, 2, 5]))]
    if urlenc:
        body = b"&".join(proto.pct_encode(k, keep=b"") + b"=" + proto.pct_encode(v, keep=b"").replace(b"%20", b"+") for k, v in fields)
        ctype = b"application/x-www-form-urlencoded"
    else:
        body = bytes(rnd.getrandbits(8) for _ in range(rnd.choice([1, 5, 300, 3000])))
        ctype = b"application/octet-stream"
    kind = rnd.choice(["ok", "ok", "longer-than-declared", "shorter-than-declared"] + (["valueless-field", "empty-segment"] if urlenc else []))
    send_body, declared, expect = body, len(body), "ok"
    if kind == "longer-than-declared":
        declared = max(1, len(body) - rnd.choice([1, 2, len(body) // 2]))
        if declared >= len(body):
            return
        # only FastCGI marks the end of the body (empty STDIN record): there a body longer than CONTENT_LENGTH is a contradiction.
        # On HTTP and SCGI the declared length IS the body; bytes after it are not part of the request
        if pn != "fastcgi":
            return
        expect = "refused"
    elif kind == "shorter-than-declared":
        declared = len(body) + rnd.choice([1, 10, 1000])
        expect = "incomplete"
    elif kind == "valueless-field":
        parts = body.split(b"&")
        parts.insert(rnd.randrange(0, len(parts) + 1), b"flag")
        send_body = body = b"&".join(parts)
        declared = len(body)
        expect = "refused-or-complete"
    elif kind == "empty-segment":
        send_body = body = body + b"&&" + b"zz=1"
        declared = len(body)
        expect = "refused-or-complete"
    r = proto.Req(method=b"POST", script=app, path_info=b"/form", query=b"tok=" + tok, body=send_body, content_type=ctype, token=tok)
    rp = {"proto": pn, "app": app.decode(), "kind": "body:" + kind, "content_type": ctype.decode(), "body": send_body[:300].decode("latin-1"), "declared": declared}
    try:
        d = send_with_declared(S, rnd, pn, r, send_body, declared, half_close=(expect == "incomplete"))
    except OSError:
        cnt("client_io_errors")
        return
    cnt("plain_bodies")
    cnt("plain_bodies_" + kind)
    st = d["status"]
    sent[tok.decode()] = ("body:" + kind, "ok" if expect == "ok" else ("refused" if expect in ("refused", "incomplete") else "either"), app.decode())
    echo = None
    if st == 200:
        try:
            echo = json.loads(d["body"].decode("latin-1"))
        except ValueError:
            pass
    if expect == "ok":
        if echo is None:
            res["viol"].append({"key": "c12:well-formed-body-refused:" + pn, "detail": "status %r" % st, "replay": rp})
            return
        post = sorted((bytes.fromhex(a), bytes.fromhex(b)) for a, b in echo["post"])
        if urlenc and post != sorted(fields):
            res["viol"].append({"key": "c12:form-fields-differ:" + pn, "detail": "got %r want %r" % (post[:4], sorted(fields)[:4]), "replay": rp})
            return
        if echo["raw_len"] != len(body) or ("raw" in echo and bytes.fromhex(echo["raw"]) != body):
            res["viol"].append({"key": "c12:raw-body-differs:" + pn, "detail": "%d vs %d bytes" % (echo["raw_len"], len(body)), "replay": rp})
            return
        cnt("plain_bodies_compared")
    elif expect in ("refused", "incomplete"):
        if st == 200:
            res["viol"].append({"key": "c12:%s-body-delivered:%s" % (kind, pn), "detail": "declared %d, sent %d bytes (%s): status 200, application saw %r" % (declared, len(send_body), ctype.decode(), (echo or {}).get("post", "?")), "replay": rp})
            return
        cnt("plain_bodies_refused")
    else:
        # a field without '=' or an empty segment: refused as a whole, or delivered as a whole - never in part
        if st == 200 and echo is not None:
            post = sorted((bytes.fromhex(a), bytes.fromhex(b)) for a, b in echo["post"])
            want = sorted(fields + ([(b"zz", b"1")] if kind == "empty-segment" else []))
            named = sorted(x for x in post if x[0] != b"flag")
            if named != want:
                res["viol"].append({"key": "c12:form-delivered-in-part:" + pn, "detail": "body %r: application saw %r" % (send_body[:120], post[:6]), "replay": rp})
                return
        cnt("plain_bodies_odd_syntax_checked")


def worker(args):
    basedir, exe, seed, ncases, windex = args
    rnd = random.Random(seed)
    res = {"viol": [], "counters": {}, "samples": [], "fail": None}

    def cnt(k, n=1):
        res["counters"][k] = res["counters"].get(k, 0) + n
    S = None
    try:
        S = srv.Server(basedir, exe, "up%d" % windex, overrides={"security": {"content_length_limit": 8, "multipart_form_data_limit": 512, "file_in_memory_limit": 2000}})
        sent = {}
        for ci in range(ncases):
            if res["viol"]:
                break
            if rnd.random() < 0.25:
                urlencoded_case(S, rnd, windex, ci, cnt, res, sent)
                continue
            boundary = bytes(rnd.choice(b"abcdefXYZ0123456789-_'()+,./:=?") for _ in range(rnd.choice([1, 8, 30, 70]))).rstrip(b" ") or b"B"
            parts = gen_parts(rnd, boundary)
            body = encode_multipart(parts, boundary)
            while len(body) > 500 * 1024:          # the server is configured with multipart_form_data_limit = 512 KiB
                parts.pop()
                body = encode_multipart(parts, boundary)
            app = rnd.choice([b"/echo", b"/aecho", b"/upload", b"/rawup"])
            pn = rnd.choice(["http", "scgi", "fastcgi"])
            tok = b"U%d-%d" % (windex, ci)
            query = []
            kind = rnd.choice(["ok", "ok", "ok", "app-abort", "over-limit", "field-over-limit", "longer-than-declared", "shorter-than-declared", "bad-boundary", "no-final-boundary"])
            cl_limit = mp_limit = None
            if app in (b"/upload", b"/rawup"):
                if rnd.random() < 0.5:
                    query.append(b"setbuf=%d" % rnd.choice([1, 7, 64, 1000, 65536]))
                if rnd.random() < 0.3:
                    query.append(b"mem_limit=%d" % rnd.choice([0, 10, 100000]))
            send_body = body
            declared = len(body)
            expect = "ok"
            released = False
            if kind == "ok" and app == b"/upload" and parts:
                # filters that look at the data (a CSRF token check reads the field's stream) or take themselves off the request half way
                x = rnd.random()
                if x < 0.3:
                    query.append(b"read=" + rnd.choice([b"r", b"p"]))
                    cnt("uploads_with_an_inspecting_filter")
                elif x < 0.45:
                    ev = rnd.choice(["n", "r", "p"])
                    query.append(b"release=%s%d" % (ev.encode(), rnd.randrange(1, len(parts) + 1)))
                    released = True
                    cnt("uploads_with_a_filter_released_half_way")
            if kind == "ok" and parts and rnd.random() < 0.2 and app != b"/rawup":
                # RFC 2046: the CRLF after the close delimiter belongs to the (optional) epilogue, a body may end with "--boundary--"
                send_body = body = body[:-2]
                declared = len(body)
                cnt_no_crlf = True
            else:
                cnt_no_crlf = False
            if kind == "app-abort" and app in (b"/upload", b"/rawup") and body:
                # the application's content filter refuses the upload by throwing abort_upload(code) from one of its callbacks
                code = rnd.choice([403, 404, 409, 500, 503])
                if app == b"/upload":
                    ev = rnd.choice(["n", "r", "e"] if parts else ["e"])
                    nth = rnd.randrange(1, len(parts) + 1) if ev in ("n", "r") else 1
                else:
                    ev, nth = rnd.choice([("d", 1), ("e", 1)])
                query.append(b"abort=%s%d.%d" % (ev.encode(), nth, code))
                expect = str(code)
            elif kind == "over-limit":
                if app in (b"/upload", b"/rawup"):
                    mp_limit = max(1, len(body) - rnd.choice([1, 10]))
                    query.append(b"mp_limit=%d" % mp_limit)
                    expect = "413"
                else:
                    big = [{"name": b"big", "filename": b"big.bin", "mime": b"application/octet-stream", "content": b"z" * (530 * 1024)}]
                    send_body = body = encode_multipart(big, boundary)
                    parts = big
                    declared = len(body)
                    expect = "413"
            elif kind == "field-over-limit" and app != b"/rawup":
                fld = [{"name": b"huge", "filename": None, "mime": None, "content": b"y" * (9 * 1024)}]
                send_body = body = encode_multipart(fld, boundary)
                parts = fld
                declared = len(body)
                expect = "413"
            elif kind == "longer-than-declared" and len(body) > 2:
                # (cutting exactly the final CRLF would leave a well-formed body that ends at the close delimiter: not used here)
                declared = len(body) - rnd.choice([1, 3, len(body) // 2])
                expect = "400" if app != b"/rawup" else "ok-raw-short"
            elif kind == "shorter-than-declared":
                declared = len(body) + rnd.choice([1, 10, 1000])
                expect = "incomplete"
            elif kind == "bad-boundary" and parts and app != b"/rawup":
                send_body = body.replace(b"--" + boundary + b"\r\n", b"--" + boundary + b"X\r\n", 1)
                expect = "400"
            elif kind == "no-final-boundary" and app != b"/rawup":
                send_body = body[:-len(boundary) - 6] + b"\r\n"
                declared = len(send_body)
                expect = "400"
            ctype = b"multipart/form-data; boundary=" + (q(boundary) if rnd.random() < 0.5 or not boundary.replace(b"-", b"").replace(b"_", b"").isalnum() else boundary)
            r = proto.Req(method=b"POST", script=app, path_info=b"/up", query=b"&".join(query + [b"tok=" + tok]), body=send_body, content_type=ctype, token=tok)
            if pn == "http":
                data = proto.http_encode(r, version=b"1.0").replace(b"Content-Length: %d" % len(send_body), b"Content-Length: %d" % declared, 1)
            elif pn == "scgi":
                data = proto.scgi_encode(r).replace(b"CONTENT_LENGTH\0%d\0" % len(send_body), b"CONTENT_LENGTH\0%d\0" % declared, 1)
                # the netstring length changes with the digits of CONTENT_LENGTH: re-encode properly
                env = [(k, (b"%d" % declared if k == b"CONTENT_LENGTH" else v)) for k, v in proto.cgi_env(r)]
                blob = b"".join(k + b"\0" + v + b"\0" for k, v in env)
                data = str(len(blob)).encode() + b":" + blob + b"," + send_body
            else:
                env = [(k, (b"%d" % declared if k == b"CONTENT_LENGTH" else v)) for k, v in proto.cgi_env(r) if k != b"SCGI"]
                import struct
                data = proto.fcgi_record(proto.FCGI_BEGIN, 1, struct.pack(">HB5x", 1, 0)) + proto.fcgi_stream(proto.FCGI_PARAMS, 1, proto.fcgi_pairs(env)) + proto.fcgi_stream(proto.FCGI_STDIN, 1, send_body, rnd)
            sched = None
            if rnd.random() < 0.5:
                sched = [rnd.choice([1, 2, 3, 17, 100, 1000]) for _ in range(rnd.choice([10, 100, 600]))]
            rp = {"proto": pn, "app": app.decode(), "kind": kind, "expect": expect, "boundary": boundary.decode("latin-1"), "body_len": len(send_body), "declared": declared, "parts": [(p["name"].decode("latin-1"), len(p["content"])) for p in parts][:8], "sched": (sched or [])[:30]}
            sent[tok.decode()] = (kind, expect, app.decode())
            try:
                c = srv.Conn(S, pn, r=sched, timeout=15)
                try:
                    c.send(data)
                    if expect == "incomplete":
                        c.half_close()
                    raw, closed = c.recv_all(15)
                finally:
                    c.close()
            except OSError:
                cnt("client_io_errors")
                if not S.alive():
                    break
                continue
            cnt("uploads")
            cnt("uploads_" + kind)
            d = proto.http_parse_response(raw) if pn == "http" else (proto.cgi_parse_response(raw) if pn == "scgi" else proto.fcgi_parse_response(raw)["cgi"])
            st = d["status"]
            if not S.alive():
                break
            if expect == "ok":
                if st != 200:
                    res["viol"].append({"key": "c12:well-formed-upload-refused:" + pn, "detail": "status %r" % st, "replay": rp})
                    break
                try:
                    echo = json.loads(d["body"].decode("latin-1"))
                except ValueError:
                    res["viol"].append({"key": "c12:well-formed-upload-refused:" + pn, "detail": "no echo document", "replay": rp})
                    break
                if app != b"/rawup":
                    files = [(bytes.fromhex(f["name"]), bytes.fromhex(f["filename"]), bytes.fromhex(f["mime"]).lower(), f["len"], int(f["hash"])) for f in echo["files"]]
                    wantf = [(p["name"], p["filename"], p["mime"].lower(), len(p["content"]), fnv(p["content"])) for p in parts if p["mime"] is not None]
                    post = sorted((bytes.fromhex(a), bytes.fromhex(b)) for a, b in echo["post"])
                    wantp = sorted((p["name"], p["content"]) for p in parts if p["mime"] is None)
                    if files != wantf:
                        res["viol"].append({"key": "c12:uploaded-files-differ:" + pn, "detail": "got %r want %r" % ([f[:4] for f in files][:4], [f[:4] for f in wantf][:4]), "replay": rp})
                        break
                    if post != wantp:
                        res["viol"].append({"key": "c12:form-fields-differ:" + pn, "detail": "%d vs %d fields" % (len(post), len(wantp)), "replay": rp})
                        break
                    cnt("uploads_compared")
                    cnt("parts_compared", len(parts))
                    if cnt_no_crlf:
                        cnt("uploads_ending_at_the_close_delimiter")
                xf = dict((a.lower(), b) for a, b in d["headers"]).get(b"x-filter", b"").decode()
                if app == b"/rawup" and send_body:
                    kv = dict(x.split("=") for x in xf.split())
                    if int(kv["raw_bytes"]) != len(send_body) or int(kv["raw_hash"]) != fnv(send_body) or kv["eoc"] != "1" or kv["errors"] != "0":
                        res["viol"].append({"key": "c12:raw-filter-did-not-see-every-byte-once:" + pn, "detail": xf + " body_len=%d" % len(send_body), "replay": rp})
                        break
                    cnt("raw_filter_checked")
                if app == b"/upload" and send_body:
                    kv = dict(x.split("=") for x in xf.split())
                    if released:
                        if kv["errors"] != "0":
                            res["viol"].append({"key": "c12:multipart-filter-callbacks-wrong:" + pn, "detail": xf + " parts=%d (filter released half way)" % len(parts), "replay": rp})
                            break
                    elif int(kv["new_files"]) != len(parts) or int(kv["ready"]) != len(parts) or kv["eoc"] != "1" or kv["errors"] != "0":
                        res["viol"].append({"key": "c12:multipart-filter-callbacks-wrong:" + pn, "detail": xf + " parts=%d" % len(parts), "replay": rp})
                        break
                    cnt("multipart_filter_checked")
            elif kind == "app-abort" and expect != "ok":
                if st != int(expect):
                    res["viol"].append({"key": "c12:upload-aborted-by-the-filter-answered-with-%s:%s" % (st, pn), "detail": "filter threw abort_upload(%s) (%s)" % (expect, [x for x in query if x.startswith(b"abort")][0].decode()), "replay": rp})
                    break
                cnt("filter_aborts_checked")
            elif expect in ("400", "413"):
                if st == 200:
                    res["viol"].append({"key": "c12:%s-upload-delivered:%s" % (kind, pn), "detail": "status 200 (app %s)" % app.decode(), "replay": rp})
                    break
                if st is not None and st != int(expect) and not (expect == "400" and st == 413):
                    res["viol"].append({"key": "c12:%s-upload-answered-with-%s:%s" % (kind, st, pn), "detail": "expected %s" % expect, "replay": rp})
                    break
                cnt("refusals_checked")
            elif expect == "incomplete":
                if st == 200:
                    res["viol"].append({"key": "c12:incomplete-upload-delivered:" + pn, "detail": "app %s" % app.decode(), "replay": rp})
                    break
                cnt("incomplete_checked")
            # temporary files disappear with the request
            deadline = time.time() + 3
            while os.listdir(S.uploads) and time.time() < deadline:
                time.sleep(0.01)
            left = os.listdir(S.uploads)
            if left:
                res["viol"].append({"key": "c12:temporary-upload-file-left-behind", "detail": repr(left[:3]), "replay": rp})
                break
            if ci < 2:
                res["samples"].append(rp)
        S.stop()
        key, detail = S.death_report()
        if key:
            res["viol"].append({"key": key, "detail": detail, "replay": None})
        # refused / incomplete uploads must not reach the application's completed stage; on_error at most once
        mains = {}
        errs = {}
        for e in S.events():
            t = e.get("token")
            if e.get("ev") == "main" and t:
                mains[t] = mains.get(t, 0) + 1
            if e.get("ev") == "on_error" and t:
                errs[t] = errs.get(t, 0) + 1
        for t, (kind, expect, app) in sent.items():
            if expect not in ("ok", "ok-raw-short", "either") and mains.get(t, 0) > 0:
                res["viol"].append({"key": "c12:handler-called-for-refused-upload", "detail": "%s %s %s" % (t, kind, app), "replay": None})
                break
            if errs.get(t, 0) > 1:
                res["viol"].append({"key": "c12:upload-error-notified-more-than-once", "detail": "%s %s" % (t, kind), "replay": None})
                break
        cnt("on_error_notifications", sum(errs.values()))
    except Exception as e:  # harness failure
        import traceback
        res["fail"] = "%r\n%s\n%s" % (e, traceback.format_exc()[-1500:], S.stderr()[-800:] if S else "")
        if S:
            S.stop()
    return res


def run(ck):
    exe = ck.build("asan", ["vsrv"])["vsrv"]
    thorough = ck.tier == "thorough"
    n = int((6000 if thorough else 120) * ck.scale)
    args = [(ck.rundir, exe, sa.subseed(ck, 500 + i), n, i) for i in range(16)]
    c01.run_workers(ck, worker, args)
