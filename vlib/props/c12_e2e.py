"""End-to-end part of C12 (limits, filters, temp files) through the server harness; filled in with vsrv."""


def run(ck):
    return
