"""C11 - JSON parsing accepts exactly well-formed documents; serialization round-trips."""
import json
import math
import os

from .. import standalone as sa


def _close(a, b):
    if type(a) != type(b):
        if isinstance(a, (int, float)) and isinstance(b, (int, float)) and not isinstance(a, bool) and not isinstance(b, bool):
            pass
        else:
            return False
    if isinstance(a, dict):
        return a.keys() == b.keys() and all(_close(a[k], b[k]) for k in a)
    if isinstance(a, list):
        return len(a) == len(b) and all(_close(x, y) for x, y in zip(a, b))
    if isinstance(a, (int, float)) and not isinstance(a, bool):
        return a == b or abs(a - b) <= 1e-15 * max(abs(a), abs(b))
    return a == b


def _reject_const(c):
    raise ValueError("non-RFC constant " + c)


def run(ck):
    asan = ck.build("asan", ["json_mon"])["json_mon"]
    thorough = ck.tier == "thorough"
    n = int((40000 if thorough else 700) * ck.scale)
    jobs = []
    dumps = []
    for i in range(16):
        a = ["--mode", "all", "--cases", n, "--seed", sa.subseed(ck, i)]
        if i < 2:
            d = os.path.join(ck.rundir, "dump%d.jsonl" % i)
            dumps.append(d)
            a += ["--dump", d]
        jobs.append(dict(exe=asan, args=a, label="all%d" % i, timeout=7200))
    # separate input class: API-built values that JSON text cannot carry (NaN, infinities, strings that are not UTF-8)
    jobs.append(dict(exe=asan, args=["--mode", "writer", "--cases", max(50, n // 10), "--seed", sa.subseed(ck, 77), "--odd"], label="odd", timeout=7200))
    sa.run_jobs(ck, jobs, sets=("docs",))
    for d in dumps:
        if not os.path.exists(d):
            continue
        for k, line in enumerate(open(d)):
            if k > (200000 if thorough else 5000):
                break
            j = json.loads(line)
            out = bytes.fromhex(j["out"])
            ck.count("python_crosschecks")
            try:
                a = json.loads(out.decode("utf-8"), parse_constant=_reject_const)
                b = json.loads(bytes.fromhex(j["resave"]).decode("utf-8"), parse_constant=_reject_const)
            except Exception as e:  # noqa
                ck.violation("json:python-rejects-writer-output", "%r out=%r" % (e, out[:300]), {"out": j["out"]})
                continue
            if not _close(a, b):
                ck.violation("json:python-sees-different-value-after-resave", repr(out[:300]), {"out": j["out"]})
    if thorough:
        from .. import fuzz
        seeds = [b'{"a":[1,2.5e3,true,null,"x\\u00e9\\ud83d\\ude00"],"b":{}}', b'[[[[]]]]', b'// c\n[1]']
        fuzz.run_libfuzzer(ck, "json_fuzz", seconds=int(600 * ck.scale), jobs=16, key_prefix="json:fuzz", max_len=8192, seeds=seeds)
    c = ck.counters
    c["evaluations_total"] = c.get("any_inputs", 0) + c.get("rfc_docs", 0) + c.get("writer_outputs", 0) + c.get("extractions", 0)
    ck.assumptions += [
        "strings put into values through the API are valid UTF-8 and numbers finite (JSON cannot represent others)",
        "float extraction: 'exact' means the nearest float, or an exception outside float's range",
        "duplicate object keys in a document must be refused (cppcms treats them as a syntax error; an accepted document's objects have unique keys)",
        "glibc strtod is correctly rounded (reference for numeric values)",
    ]
    ck.finish("exploration",
              "grammar-generated RFC 8259 documents with abstract trees (all escape forms, surrogate pairs, numbers across the double range, nesting 0..600 around the 512 bound) compared node by node; "
              "their single-byte mutations, fragment garbage and (thorough) libFuzzer input under the any-bytes oracle (sentinel untouched on failure, UTF-8/depth invariants, save/load fixpoint); "
              "API-built trees (a third of them with a value replaced by one of its own parts through the reference-taking setters) written compact/readable into streams with ','-decimal/grouping numpunct and booster ICU de_DE/fr_FR locales, validated by a strict RFC recogniser and python json; "
              "typed extraction for 12 integer types, float, double. non-trivial = distinct document texts",
              "evaluations_total", "docs", min_evals=100000,
              required_nonzero=("any_accepted", "any_rejected", "rfc_docs_within_bound", "rfc_docs_beyond_bound", "rfc_docs_depth_500_512", "writer_outputs", "extractions_returned",
                                "duplicate_key_docs", "python_crosschecks", "values_replaced_by_own_part"))


def replay(j):
    import subprocess
    from .. import build as vbuild
    exe = vbuild.build("asan", ["json_mon"])["json_mon"]
    case = ((j.get("replay") or {}).get("case") or {})
    if "text" not in case:
        print("replay: no document text recorded")
        return 2
    p = subprocess.run([exe, "--mode", "one", "--text", case["text"]])
    return 1 if p.returncode else 0
