"""C02 - no request, however malformed, crashes the service or disturbs other requests."""
import zlib
import json
import random
import struct
import time

from .. import proto, srv
from .. import standalone as sa
from . import c01


def probe(S, rnd, n, res, where):
    """well-formed request on a fresh connection; must be answered exactly"""
    pn = rnd.choice(["http", "scgi", "fastcgi"])
    tok = b"P%d" % n
    r = proto.Req(method=b"GET", script=rnd.choice([b"/echo", b"/aecho"]), path_info=b"/probe", query=b"tok=" + tok, token=tok)
    r.form = None
    r.cookie_list = []
    data = {"http": proto.http_encode, "scgi": proto.scgi_encode, "fastcgi": proto.fcgi_encode}[pn](r)
    try:
        outs = c01.roundtrip(S, pn, data, None)
        echo, err = c01.body_of(pn, outs[0])
    except OSError as e:
        echo, err = None, "probe connection failed: %r" % (e,)
    res["counters"]["probes"] = res["counters"].get("probes", 0) + 1
    if echo is None or echo.get("token") != tok.decode() or bytes.fromhex(echo["path_info"]) != b"/probe":
        res["viol"].append({"key": "c02:probe-on-other-connection-not-answered:" + pn, "detail": "%s: %s" % (where, err), "replay": res.get("last_case")})
        return False
    res["counters"]["probes_ok"] = res["counters"].get("probes_ok", 0) + 1
    return True


# ------------------------------------------------------------------ mutations
def mutate_generic(rnd, data):
    b = bytearray(data)
    kind = rnd.randrange(9)
    name = ["flip", "delete", "duplicate", "insert", "truncate", "crlf", "zero", "splice", "repeat-all"][kind]
    n = len(b)
    if n == 0:
        return bytes(b), name
    if kind == 0:
        for _ in range(rnd.choice([1, 1, 2, 5])):
            b[rnd.randrange(n)] ^= 1 << rnd.randrange(8)
    elif kind == 1:
        a = rnd.randrange(n)
        del b[a:a + rnd.choice([1, 2, 8, 50])]
    elif kind == 2:
        a = rnd.randrange(n)
        l = rnd.choice([1, 4, 16, 200])
        b[a:a] = b[a:a + l]
    elif kind == 3:
        a = rnd.randrange(n + 1)
        b[a:a] = bytes(rnd.getrandbits(8) for _ in range(rnd.choice([1, 2, 10, 300])))
    elif kind == 4:
        del b[rnd.randrange(n):]
    elif kind == 5:
        a = rnd.randrange(n)
        b[a:a] = rnd.choice([b"\r", b"\n", b"\r\n", b"\r\n\r\n", b"\n\n", b"\0", b"\"", b"(", b"\\"])
    elif kind == 6:
        a = rnd.randrange(n)
        b[a:a + 4] = b"\0\0\0\0"
    elif kind == 7:
        a, c = sorted((rnd.randrange(n), rnd.randrange(n)))
        b = b[c:] + b[:a]
    else:
        b = b + b
    return bytes(b), name


def http_special(rnd, r):
    """(bytes, class name, must_reject)"""
    k = rnd.randrange(16)
    base = proto.http_encode(r, version=b"1.0")
    if k == 0:
        return base.replace(b" HTTP/1.0", b"", 1), "request-line-without-version", True
    if k == 1:
        return base.replace(b"\r\nX-Token:", b"\r\nthis header has no colon\r\nX-Token:", 1), "header-without-colon", True
    if k == 2:
        return base.replace(b"\r\n\r\n", b"\r\nX-Big: " + b"a" * 40000 + b"\r\n\r\n", 1), "headers-far-over-16k", True
    if k in (3, 4, 5, 6):
        v = [b"-1", b"-100", b"-9223372036854775808", b"-2147483649"][k - 3]
        return _with_cl(r, v), "content-length-negative", True
    if k == 7:
        return _with_cl(r, rnd.choice([b"99999999999999999999999", b"9223372036854775807", b"18446744073709551615", b"4294967296"])), "content-length-absurd", False
    if k == 8:
        return _with_cl(r, rnd.choice([b"abc", b"0x10", b"1e3", b"", b" ", b"5, 5", b"+5"])), "content-length-not-a-number", False
    if k == 9:
        return base.replace(b"GET ", b"G(T ", 1).replace(b"POST ", b"P\"ST ", 1), "method-not-a-token", False
    if k == 10:
        return base.replace(b" /", b" ", 1), "uri-not-starting-with-slash", True
    if k == 11:
        body = r.body + b"extra-bytes-after-body"
        return base + b"extra-bytes-after-body", "bytes-after-declared-body", False
    if k == 12:
        return proto.http_encode(r, version=b"1.1", keep_alive=True) * 3 + b"GARBAGE\r\n\r\n", "keepalive-then-garbage", False
    if k == 13:
        return b"\r\n\r\n" + base, "leading-empty-lines", False
    if k == 14:
        return base.replace(b"\r\n", b"\n"), "bare-lf-line-ends", False
    return bytes(rnd.getrandbits(8) for _ in range(rnd.choice([1, 10, 100, 20000]))), "random-bytes", False


def _with_cl(r, v):
    q = proto.Req(method=b"POST", script=r.script, path_info=r.path_info, query=r.query, headers=r.headers, body=b"", content_type=b"text/plain", token=r.token)
    base = proto.http_encode(q, version=b"1.0")
    return base.replace(b"Content-Length: 0", b"Content-Length: " + v, 1) + b"0123456789"


def scgi_special(rnd, r):
    k = rnd.randrange(10)
    base = proto.scgi_encode(r)
    colon = base.index(b":")
    n = int(base[:colon])
    if k == 0:
        return base[:colon + 1 + n] + b";" + base[colon + 2 + n:], "netstring-without-comma", True
    if k == 1:
        return b"x" + base, "netstring-length-not-a-number", True
    if k == 2:
        return b"99999:" + base[colon + 1:], "netstring-length-over-limit", True
    if k == 3:
        return str(n - 3).encode() + base[colon:], "netstring-length-too-short", True
    if k == 4:
        return str(n + 5).encode() + base[colon:], "netstring-length-too-long", False
    if k == 5:
        return base.replace(b"CONTENT_LENGTH\0" + str(len(r.body)).encode() + b"\0", b"CONTENT_LENGTH\0-5\0", 1), "content-length-negative", True
    if k == 6:
        return base.replace(b"CONTENT_LENGTH\0" + str(len(r.body)).encode() + b"\0", b"CONTENT_LENGTH\0" + str(len(r.body) + 100).encode() + b"\0", 1), "body-shorter-than-declared", True
    if k == 7:
        return b"0:," + base, "empty-netstring", False
    if k == 8:
        return b"-5:" + base[colon + 1:], "netstring-length-negative", True
    return b"16384:" + b"A\0" * 8192 + b",", "netstring-of-16384-bytes-of-junk", False


def fcgi_special(rnd, r):
    k = rnd.randrange(16)
    env = [(a, b) for a, b in proto.cgi_env(r) if a != b"SCGI"]
    begin = proto.fcgi_record(proto.FCGI_BEGIN, 1, struct.pack(">HB5x", 1, 0))
    params = proto.fcgi_stream(proto.FCGI_PARAMS, 1, proto.fcgi_pairs(env))
    stdin = proto.fcgi_stream(proto.FCGI_STDIN, 1, r.body)
    if k == 0:
        return proto.fcgi_record(proto.FCGI_BEGIN, 1, struct.pack(">HB5x", 1, 0), version=rnd.choice([0, 2, 255])) + params + stdin, "wrong-version", True
    if k == 1:
        return proto.fcgi_record(proto.FCGI_BEGIN, 1, struct.pack(">HB5x", rnd.choice([2, 3, 77]), 0), padding=rnd.choice([0, 3, 7, 255])) + params + stdin, "unknown-role", True
    if k == 2:
        return begin + proto.fcgi_record(rnd.choice([12, 50, 255]), 1, b"zzzz") + params + stdin, "unknown-record-type-inside-request", False
    if k == 3:
        return begin + stdin + params, "stdin-where-params-expected", True
    if k == 4:
        return begin + proto.fcgi_stream(proto.FCGI_PARAMS, 2, proto.fcgi_pairs(env)) + stdin, "request-id-mismatch", True
    if k == 5:
        bad = proto.fcgi_len(200) + proto.fcgi_len(5) + b"SHORT"
        return begin + proto.fcgi_record(proto.FCGI_PARAMS, 1, proto.fcgi_pairs(env) + bad) + proto.fcgi_record(proto.FCGI_PARAMS, 1, b"") + stdin, "name-length-exceeds-record", True
    if k == 6:
        bad = proto.fcgi_len(3) + struct.pack(">I", 0xFFFFFFFF) + b"ABC"
        return begin + proto.fcgi_record(proto.FCGI_PARAMS, 1, bad) + proto.fcgi_record(proto.FCGI_PARAMS, 1, b"") + stdin, "value-length-4GiB", True
    if k == 7:
        e2 = [(a, (str(len(r.body) + 50).encode() if a == b"CONTENT_LENGTH" else b)) for a, b in env]
        return begin + proto.fcgi_stream(proto.FCGI_PARAMS, 1, proto.fcgi_pairs(e2)) + stdin, "stdin-shorter-than-content-length", True
    if k == 8:
        e2 = [(a, (b"-7" if a == b"CONTENT_LENGTH" else b)) for a, b in env]
        return begin + proto.fcgi_stream(proto.FCGI_PARAMS, 1, proto.fcgi_pairs(e2)) + stdin, "content-length-negative", True
    if k == 9:
        asked = rnd.choice([[(b"FCGI_MAX_CONNS", b""), (b"FCGI_MPXS_CONNS", b"")], [(b"FCGI_MAX_REQS", b"")], [(b"FCGI_MAX_CONNS", b"")], [(b"FCGI_MPXS_CONNS", b"")], [(b"FCGI_MAX_CONNS", b""), (b"FCGI_MAX_REQS", b""), (b"FCGI_MPXS_CONNS", b"")]])
        return proto.fcgi_record(proto.FCGI_GET_VALUES, 0, proto.fcgi_pairs(asked), padding=rnd.choice([0, 1, 5, 8])) + begin + params + stdin, "get-values-then-request", False
    if k == 10:
        return begin + begin + params + stdin, "begin-request-twice", False
    if k == 11:
        return begin + params[:-8] + proto.fcgi_record(proto.FCGI_ABORT, 1, b"") + stdin, "abort-request", False
    if k == 12:
        return params + stdin, "params-without-begin", True
    if k == 13:
        return begin + proto.fcgi_record(proto.FCGI_PARAMS, 1, b"") + stdin, "empty-params", False
    if k == 14:
        return begin[:8] + b"\0\0\0", "begin-record-with-short-body", True
    return bytes(rnd.getrandbits(8) for _ in range(rnd.choice([1, 8, 16, 100, 70000]))), "random-bytes", False


def classify_reply(pn, data):
    """returns ('error'|'ok2xx'|'closed', status)"""
    if not data:
        return "closed", None
    if pn == "http":
        res = proto.http_parse_response(data)
        st = res["status"]
    elif pn == "scgi":
        res = proto.cgi_parse_response(data)
        st = res["status"] if not res["errors"] else None
    else:
        res = proto.fcgi_parse_response(data)
        if res["end"] is not None and res["end"][1] != 0:
            return "error", "end-status-%d" % res["end"][1]
        st = res["cgi"]["status"]
    if st is None:
        return "closed", None
    return ("ok2xx" if 200 <= st < 300 else "error"), st


def worker(args):
    basedir, exe, seed, ncases, windex = args
    rnd = random.Random(seed)
    res = {"viol": [], "counters": {}, "samples": [], "fail": None, "classes": set()}

    def cnt(k, n=1):
        res["counters"][k] = res["counters"].get(k, 0) + n
    S = None
    try:
        S = srv.Server(basedir, exe, "srv%d" % windex, overrides={"http": {"timeout": 3}, "security": {"content_length_limit": 64, "multipart_form_data_limit": 128}})
        sent_tokens = {}
        # well-formed requests with every element count up to 140 (tables grow at such counts): a request that hangs or kills
        # the loop here takes every other connection with it
        c01.count_sweep(S, rnd, windex, 140, cnt, res, prefix="c02", kinds=("headers", "query"))
        for ci in range(ncases):
            if res["viol"]:
                break
            pn = rnd.choice(["http", "scgi", "fastcgi"])
            r = c01.gen_req(rnd, rnd.choice([b"/echo", b"/aecho", b"/upload", b"/rawup"]), ci)
            # self-checking and self-delimiting: a mutated or cut token must not turn into the token of another request
            r.token = b"M%d-%d-%08xz" % (windex, ci, zlib.crc32(b"%d-%d" % (windex, ci)))
            must = False
            if rnd.random() < 0.45:
                data, cls, must = {"http": http_special, "scgi": scgi_special, "fastcgi": fcgi_special}[pn](rnd, r)
            else:
                valid = {"http": lambda: proto.http_encode(r, version=rnd.choice([b"1.0", b"1.1"]), keep_alive=rnd.random() < 0.3, rnd=rnd),
                         "scgi": lambda: proto.scgi_encode(r, rnd=rnd), "fastcgi": lambda: proto.fcgi_encode(r, keep_conn=rnd.random() < 0.3, rnd=rnd)}[pn]()
                data, cls = mutate_generic(rnd, valid)
                if rnd.random() < 0.3:
                    data, c2 = mutate_generic(rnd, data)
                    cls += "+" + c2
            ending = rnd.choice(["half-close", "half-close", "half-close", "reset", "reset-midway", "close"])
            sched = None
            if rnd.random() < 0.5:
                sched = [rnd.choice([1, 1, 2, 3, 7, 16, 100]) for _ in range(rnd.choice([3, 10, 40]))]
            res["last_case"] = {"proto": pn, "class": cls, "ending": ending, "bytes": data[:5000].hex(), "len": len(data), "sched": sched}
            res["classes"].add(pn + ":" + cls.split("+")[0])
            cnt("cases")
            cnt("cases_" + pn)
            sent_tokens[r.token.decode()] = (pn, cls)
            reply = b""
            closed = True
            try:
                c = srv.Conn(S, pn, r=sched, timeout=8)
                try:
                    if ending == "reset-midway" and len(data) > 1:
                        c.send(data[:rnd.randrange(1, len(data))])
                        if rnd.random() < 0.5:
                            time.sleep(0.001)
                        c.reset()
                    else:
                        c.send(data)
                        if rnd.random() < 0.15:
                            probe(S, rnd, ci * 10 + 1, res, "while the malformed connection is open")   # concurrent probe
                        if ending == "reset":
                            c.reset()
                        elif ending == "close":
                            c.close()
                        else:
                            c.half_close()
                            reply, closed = c.recv_all(9)
                finally:
                    c.close()
            except (ConnectionError, OSError):
                cnt("client_io_errors")
            if not S.alive():
                key, detail = S.death_report()
                res["viol"].append({"key": key or "server:died", "detail": "%s/%s: %s" % (pn, cls, detail), "replay": res["last_case"]})
                break
            if ending == "half-close":
                kind, st = classify_reply(pn, reply)
                cnt("reply_" + kind)
                if not closed:
                    # M4: after the peer's EOF the connection must be closed
                    ok = probe(S, rnd, ci * 10 + 2, res, "after a connection stayed open")
                    if ok:
                        res["viol"].append({"key": "c02:connection-not-closed-after-peer-eof:" + pn, "detail": "class %s: still open 9 s after the client half-closed (server otherwise responsive)" % cls, "replay": res["last_case"]})
                    break
                if pn == "fastcgi" and reply and (must or cls in ("get-values-then-request", "unknown-record-type-inside-request", "empty-params")):
                    fr = proto.fcgi_parse_response(reply)
                    bad = [e for e in fr["errors"] if e != "truncated record"]
                    if bad:
                        res["viol"].append({"key": "c02:malformed-reply-records:fastcgi:" + cls, "detail": repr(bad[:3]), "replay": res["last_case"]})
                        break
                    if cls == "unknown-role" and fr["end"] is not None and fr["end"][1] != 3:
                        res["viol"].append({"key": "c02:unknown-role-not-reported:fastcgi", "detail": repr(fr["end"]), "replay": res["last_case"]})
                        break
                    if cls == "get-values-then-request" and kind != "ok2xx" and st != 413:
                        res["viol"].append({"key": "c02:request-after-get-values-not-served:fastcgi", "detail": "%s %r management=%r" % (kind, st, fr.get("management")), "replay": res["last_case"]})
                        break
                if must and kind == "ok2xx":
                    res["viol"].append({"key": "c02:invalid-request-served:%s:%s" % (pn, cls), "detail": "answered %r" % st, "replay": res["last_case"]})
                    break
                if must:
                    cnt("must_reject_checked")
            if ci % 4 == 0:
                if not probe(S, rnd, ci * 10 + 3, res, "after malformed case %s/%s" % (pn, cls)):
                    break
            if ci < 3:
                res["samples"].append({"proto": pn, "class": cls, "ending": ending, "first_bytes": data[:80].decode("latin-1")})
        rc = S.stop()
        key, detail = S.death_report()
        if key and not any(v["key"] == key for v in res["viol"]):
            res["viol"].append({"key": key, "detail": detail, "replay": res.get("last_case")})
        # M3: exactly-once at the application boundary
        mains = {}
        errs = {}
        for e in S.events():
            t = e.get("token")
            if e.get("ev") == "main" and t:
                mains[t] = mains.get(t, 0) + 1
            if e.get("ev") == "on_error" and t is not None:
                errs[t] = errs.get(t, 0) + 1
        # content-filter applications are entered twice by design (headers, then content): allow 2 for /upload, /rawup
        # only tokens exactly as sent identify a request: a mutation that cuts the token ("t=M4711" -> "t=M", "t=") makes
        # different requests share what is left of it
        for t, n in mains.items():
            if t not in sent_tokens:
                cnt("calls_with_a_token_cut_by_the_mutation", n)
                continue
            if t.startswith("M") and n > 2 and sent_tokens.get(t, ("", ""))[1] != "keepalive-then-garbage" and "duplicate" not in sent_tokens.get(t, ("", ""))[1] and "repeat-all" not in sent_tokens.get(t, ("", ""))[1]:
                res["viol"].append({"key": "c02:handler-called-more-than-once", "detail": "token %s: %d calls (%r)" % (t, n, sent_tokens.get(t)), "replay": None})
                break
        for t, n in errs.items():
            if n > 1 and t in sent_tokens:
                res["viol"].append({"key": "c02:upload-error-notified-more-than-once", "detail": "token %s: %d (%r)" % (t, n, sent_tokens.get(t)), "replay": None})
                break
        cnt("handler_calls", sum(mains.values()))
        cnt("on_error_calls", sum(errs.values()))
    except Exception as e:  # harness failure
        import traceback
        res["fail"] = "%r\n%s\n%s" % (e, traceback.format_exc()[-1500:], S.stderr()[-800:] if S else "")
        if S:
            S.stop()
    res.pop("last_case", None)
    res["classes"] = sorted(res["classes"])
    return res


def run(ck):
    exe = ck.build("asan", ["vsrv"])["vsrv"]
    thorough = ck.tier == "thorough"
    n = int((40000 if thorough else 700) * ck.scale)
    hdr = ck.build("asan", ["hdr_mon"])["hdr_mon"]
    sa.run_jobs(ck, [dict(exe=hdr, args=["--cases", int((40000 if thorough else 1000) * ck.scale), "--seed", sa.subseed(ck, 950 + i)], label="hdr%d" % i, timeout=7200) for i in range(2)], sets=("blocks",))
    if thorough:
        from .. import fuzz
        fuzz.run_libfuzzer(ck, "hdr_fuzz", seconds=int(600 * ck.scale), jobs=8, key_prefix="c02:fuzz-header-parser", max_len=4096,
                           seeds=[b"\x00\x01GET /a HTTP/1.1\r\nHost: x\r\nX-Q: \"a\\\"b\"\r\nX-F: a\r\n b\r\n\r\nbody"])
        fuzz.run_libfuzzer(ck, "mp_fuzz", seconds=int(300 * ck.scale), jobs=8, key_prefix="c02:fuzz-multipart-parser", max_len=2048,
                           seeds=[b"\x00\x01--XyZ\r\nContent-Disposition: form-data; name=\"a\"\r\n\r\nv\r\n--XyZ--\r\n"])
    args = [(ck.rundir, exe, sa.subseed(ck, i), n, i) for i in range(16)]
    results = c01.run_workers(ck, worker, args)
    classes = set()
    for r in results:
        classes |= set(r.get("classes", ()))
    ck.distinct["mutation_classes"] = classes
    ck.extra["classes_seen"] = sorted(classes)[:80]
    ck.assumptions += [
        "every malformed case is ended by the client (half-close, RST with SO_LINGER 0 at a random offset, or close), so an incomplete request is not mistaken for a hung one",
        "only definitely invalid framing classes must be refused (never served with 2xx); for arbitrary mutations only process survival, sanitizer silence, probe answers, exactly-once and close-after-EOF are judged",
        "lenient readings of cppcms (non-numeric Content-Length read as 0, unknown FastCGI management records ignored) are not alarms",
    ]
    ck.finish("fault_enumeration",
              "valid requests for http/scgi/fastcgi mutated by 9 generic operators (bit flips, deletion, duplication, insertion, truncation, CR/LF/quote surgery, zeroing, splicing, repetition) and ~40 protocol-specific framing classes "
              "(request line without version, header without colon, >16 KiB of headers, negative/absurd/non-numeric Content-Length, netstring length variants, FastCGI wrong version/unknown role/record types/id mismatch/oversized "
              "name-value lengths/STDIN before PARAMS/length mismatches/GET_VALUES/ABORT), sent under random read schedules and ended by half-close, RST at a random offset or close; monitors: server survival and sanitizer silence, "
              "well-formed probes on other connections during and after, at-most-once handler/on_error calls per token from the event log, close-after-EOF, must-reject classes never served. non-trivial = distinct (protocol, class)",
              "cases", "mutation_classes", min_evals=5000,
              required_nonzero=("probes_ok", "cases_http", "cases_scgi", "cases_fastcgi", "reply_error", "reply_closed", "must_reject_checked", "handler_calls"))
