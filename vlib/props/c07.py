"""C07 - the cache never returns invalidated, expired or superseded data."""
from .. import standalone as sa

LEAK_ON = {"ASAN_OPTIONS": "halt_on_error=1:abort_on_error=0:detect_leaks=1:exitcode=98:allocator_may_return_null=1"}


def jobs_for(ck, exe, evict):
    thorough = ck.tier == "thorough"
    jobs = []
    depth = (5 if thorough else 4)
    parts = 16 if thorough else 8
    nops = int((1600000 if thorough else 12000) * ck.scale)
    if not evict:
        for p in range(parts):
            jobs.append(dict(exe=exe, args=["--mode", "exhaust", "--depth", depth, "--limit", 0, "--parts", parts, "--part", p], label="ex-thread-%d" % p, env=LEAK_ON, timeout=7200))
        for p in range(4):
            jobs.append(dict(exe=exe, args=["--mode", "exhaust", "--depth", depth - 1, "--limit", 0, "--shared", "--parts", 4, "--part", p], label="ex-shared-%d" % p, timeout=7200))
        for i in range(6):
            jobs.append(dict(exe=exe, args=["--mode", "random", "--ops", nops, "--limit", 0, "--keys", [8, 40, 200][i % 3], "--seed", sa.subseed(ck, i)], label="rnd-thread-%d" % i, env=LEAK_ON, timeout=7200))
        for i in range(3):
            jobs.append(dict(exe=exe, args=["--mode", "random", "--ops", nops, "--limit", 0, "--shared", "--shm", 4 << 20, "--seed", sa.subseed(ck, 10 + i)], label="rnd-shared-%d" % i, timeout=7200))
        for i in range(3):
            jobs.append(dict(exe=exe, args=["--mode", "random", "--ops", nops // 4, "--shared", "--pressure", "--shm", [600000, 1 << 20, 2 << 20][i], "--seed", sa.subseed(ck, 20 + i)], label="pressure-%d" % i, timeout=7200))
        for i in range(3):
            jobs.append(dict(exe=exe, args=["--mode", "iface", "--ops", nops // 2, "--seed", sa.subseed(ck, 30 + i)], label="iface-%d" % i, timeout=7200))
    else:
        for lim in (1, 2):
            for p in range(parts // 2):
                jobs.append(dict(exe=exe, args=["--mode", "exhaust", "--depth", depth, "--limit", lim, "--parts", parts // 2, "--part", p], label="ex-thread-l%d-%d" % (lim, p), env=LEAK_ON, timeout=7200))
            jobs.append(dict(exe=exe, args=["--mode", "exhaust", "--depth", depth - 1, "--limit", lim, "--shared"], label="ex-shared-l%d" % lim, timeout=7200))
        for lim in range(1, 9):
            jobs.append(dict(exe=exe, args=["--mode", "random", "--ops", nops, "--limit", lim, "--seed", sa.subseed(ck, 40 + lim)], label="rnd-thread-l%d" % lim, env=LEAK_ON, timeout=7200))
            jobs.append(dict(exe=exe, args=["--mode", "random", "--ops", nops // 2, "--limit", lim, "--shared", "--shm", [512 << 10, 1 << 20, 3 << 20][lim % 3], "--seed", sa.subseed(ck, 60 + lim)], label="rnd-shared-l%d" % lim, timeout=7200))
        for i in range(4):
            jobs.append(dict(exe=exe, args=["--mode", "random", "--ops", nops // 2, "--shared", "--pressure", "--limit", [0, 0, 6, 50][i], "--shm", [524288, 1 << 20, 1 << 20, 2 << 20][i], "--seed", sa.subseed(ck, 80 + i)], label="pressure-%d" % i, timeout=7200))
    if not evict:
        # limit "large": index tables that take a good part of a small shared segment
        jobs.append(dict(exe=exe, args=["--mode", "bigtable", "--seed", sa.subseed(ck, 95)], label="bigtable", timeout=7200))
        jobs.append(dict(exe=exe, args=["--mode", "random", "--ops", nops, "--limit", 0, "--late", "--seed", sa.subseed(ck, 96)], label="rnd-late", env=LEAK_ON, timeout=7200))
        jobs.append(dict(exe=exe, args=["--mode", "random", "--ops", nops, "--limit", 0, "--shared", "--shm", 2 << 20, "--late", "--seed", sa.subseed(ck, 97)], label="rnd-shared-late", timeout=7200))
    return jobs


def pages_worker(args):
    """page cache through a real server: triggers recorded while a page is built (explicit, and inherited from frames) invalidate it"""
    import random
    from .. import proto, srv
    basedir, exe, seed, ncases, windex = args
    rnd = random.Random(seed)
    res = {"viol": [], "counters": {}, "samples": [], "fail": None}

    def cnt(k, n=1):
        res["counters"][k] = res["counters"].get(k, 0) + n
    S = None
    try:
        S = srv.Server(basedir, exe, "pg%d" % windex)
        expect_hit = {}

        def get(script, tok, app):
            r = proto.Req(method=b"GET", script=app, query=b"s=" + script.encode() + b"&tok=" + tok, token=tok)
            c = srv.Conn(S, "http")
            c.send(proto.http_encode(r))
            raw, _ = c.recv_all(10)
            c.close()
            # the response is sent before the page is stored (store_page finalizes first): wait until the handler has finished,
            # otherwise the next request or rise would race with that store
            tk = tok.decode()
            if not S.wait_events(lambda evs: any(e.get("token") == tk and e.get("ev") == "written" for e in reversed(evs[-200:])), 10):
                cnt("handler_end_not_seen")
            return proto.http_parse_response(raw)
        for ci in range(ncases):
            app = rnd.choice([b"/writer", b"/awriter"])
            P, F, Tp, Tf = (b"%s-%d-%d" % (x, windex, ci) for x in (b"page", b"frame", b"tp", b"tf"))
            pre_frame = rnd.random() < 0.5
            script = "K%s,T%s,G%s.%s,w40.%d" % (P.hex(), Tp.hex(), F.hex(), Tf.hex(), ci % 997)
            if pre_frame:
                # another page builds the frame first, so this page inherits the frame's triggers through a frame *hit*
                get("G%s.%s,w5.1" % (F.hex(), Tf.hex()), b"pre%d" % ci, app)
            t1, t2, t3 = (b"p%d-%d-r%d" % (windex, ci, k) for k in (1, 2, 3))
            d1 = get(script, t1, app)
            d2 = get(script, t2, app)
            what = rnd.choice(["page-trigger", "frame-trigger", "frame-key", "page-key", "nothing", "unrelated"])
            trig = {"page-trigger": Tp, "frame-trigger": Tf, "frame-key": F, "page-key": P, "unrelated": b"zzz"}.get(what)
            if trig is not None:
                get("R%s" % trig.hex(), b"rise%d" % ci, b"/writer")
            d3 = get(script, t3, app)
            cnt("page_scenarios")
            cnt("page_scenarios_" + what)
            expect_hit[t1.decode()] = (False, what, pre_frame)
            expect_hit[t2.decode()] = (True, what, pre_frame)
            expect_hit[t3.decode()] = (what in ("nothing", "unrelated"), what, pre_frame)
            if not (d1["status"] == d2["status"] == d3["status"] == 200 and d1["body"] == d2["body"] == d3["body"]):
                res["viol"].append({"key": "cache:page-body-differs-between-build-and-cache", "detail": what, "replay": {"script": script}})
                break
        S.stop()
        key, detail = S.death_report()
        if key:
            res["viol"].append({"key": key, "detail": detail, "replay": None})
        hits = set(e["token"] for e in S.events() if e.get("ev") == "cache_hit")
        for tok, (want, what, pre) in expect_hit.items():
            if (tok in hits) != want:
                res["viol"].append({"key": ("cache:page-served-from-cache-after-its-trigger-was-raised:" + what) if not want else "cache:live-page-not-found",
                                    "detail": "token %s, raised: %s, frame %s" % (tok, what, "fetched from cache while building" if pre else "built inside the page"), "replay": None})
                break
            cnt("page_expectations_checked")
    except Exception as e:  # harness failure
        import traceback
        res["fail"] = "%r\n%s\n%s" % (e, traceback.format_exc()[-1500:], S.stderr()[-800:] if S else "")
        if S:
            S.stop()
    return res


def run(ck):
    exe = ck.build("asan", ["cache_mon"])["cache_mon"]
    sa.run_jobs(ck, jobs_for(ck, exe, evict=False), sets=("states",))
    from . import c01
    vsrv = ck.build("asan", ["vsrv"])["vsrv"]
    npages = int((3000 if ck.tier == "thorough" else 60) * ck.scale)
    c01.run_workers(ck, pages_worker, [(ck.rundir, vsrv, sa.subseed(ck, 700 + i), npages, i) for i in range(8)])
    ck.assumptions += [
        "hit iff present and now <= deadline (the comparison all back ends implement); virtual clock through a link-time time() shim",
        "a store that a process-shared cache cannot perform for lack of memory may be dropped, but must not leave the previous value for that key",
        "page-level trigger propagation (fetch_page/store_page) is driven through the server harness: a page with an explicit trigger and a frame (built inside or fetched from cache) must be rebuilt after any of them is raised, and served from cache otherwise",
    ]
    ck.finish("exploration",
              "every operation sequence of depth %d over {store x 2 keys x 3 trigger sets x 2 deadlines, fetch, rise x 3, remove, clear, tick} (21 symbols) on the thread-shared cache and depth %d on the process-shared one, "
              "long random histories over large alphabets (keys that are also trigger names, binary keys, 30-trigger sets, expired-on-arrival entries), shared-memory pressure runs, and cache_interface frame building with nested "
              "trigger recorders; after every operation the fetch result, stats() and a full dump taken through the guarded hook (index invariants included) are compared with an executable model. "
              "non-trivial = distinct model states reached" % ((5, 4) if ck.tier == "thorough" else (4, 3)),
              "ops", "states", min_evals=100000,
              required_nonzero=("hits", "fetch_partial_outputs", "misses_absent", "misses_expired", "rise_killed", "dumps", "frames_built", "sequences", "histories", "page_expectations_checked", "page_scenarios_frame-trigger", "page_scenarios_nothing", "bigtable_rounds"))
