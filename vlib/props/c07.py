"""C07 - the cache never returns invalidated, expired or superseded data."""
from .. import standalone as sa

LEAK_ON = {"ASAN_OPTIONS": "halt_on_error=1:abort_on_error=0:detect_leaks=1:exitcode=98:allocator_may_return_null=1"}


def jobs_for(ck, exe, evict):
    thorough = ck.tier == "thorough"
    jobs = []
    depth = (5 if thorough else 4)
    parts = 16 if thorough else 8
    nops = int((400000 if thorough else 12000) * ck.scale)
    if not evict:
        for p in range(parts):
            jobs.append(dict(exe=exe, args=["--mode", "exhaust", "--depth", depth, "--limit", 0, "--parts", parts, "--part", p], label="ex-thread-%d" % p, env=LEAK_ON, timeout=7200))
        for p in range(4):
            jobs.append(dict(exe=exe, args=["--mode", "exhaust", "--depth", depth - 1, "--limit", 0, "--shared", "--parts", 4, "--part", p], label="ex-shared-%d" % p, timeout=7200))
        for i in range(6):
            jobs.append(dict(exe=exe, args=["--mode", "random", "--ops", nops, "--limit", 0, "--keys", [8, 40, 200][i % 3], "--seed", sa.subseed(ck, i)], label="rnd-thread-%d" % i, env=LEAK_ON, timeout=7200))
        for i in range(3):
            jobs.append(dict(exe=exe, args=["--mode", "random", "--ops", nops, "--limit", 0, "--shared", "--shm", 4 << 20, "--seed", sa.subseed(ck, 10 + i)], label="rnd-shared-%d" % i, timeout=7200))
        for i in range(3):
            jobs.append(dict(exe=exe, args=["--mode", "random", "--ops", nops // 4, "--shared", "--pressure", "--shm", [600000, 1 << 20, 2 << 20][i], "--seed", sa.subseed(ck, 20 + i)], label="pressure-%d" % i, timeout=7200))
        for i in range(3):
            jobs.append(dict(exe=exe, args=["--mode", "iface", "--ops", nops // 2, "--seed", sa.subseed(ck, 30 + i)], label="iface-%d" % i, timeout=7200))
    else:
        for lim in (1, 2):
            for p in range(parts // 2):
                jobs.append(dict(exe=exe, args=["--mode", "exhaust", "--depth", depth, "--limit", lim, "--parts", parts // 2, "--part", p], label="ex-thread-l%d-%d" % (lim, p), env=LEAK_ON, timeout=7200))
            jobs.append(dict(exe=exe, args=["--mode", "exhaust", "--depth", depth - 1, "--limit", lim, "--shared"], label="ex-shared-l%d" % lim, timeout=7200))
        for lim in range(1, 9):
            jobs.append(dict(exe=exe, args=["--mode", "random", "--ops", nops, "--limit", lim, "--seed", sa.subseed(ck, 40 + lim)], label="rnd-thread-l%d" % lim, env=LEAK_ON, timeout=7200))
            jobs.append(dict(exe=exe, args=["--mode", "random", "--ops", nops // 2, "--limit", lim, "--shared", "--shm", [512 << 10, 1 << 20, 3 << 20][lim % 3], "--seed", sa.subseed(ck, 60 + lim)], label="rnd-shared-l%d" % lim, timeout=7200))
        for i in range(4):
            jobs.append(dict(exe=exe, args=["--mode", "random", "--ops", nops // 2, "--shared", "--pressure", "--limit", [0, 0, 6, 50][i], "--shm", [524288, 1 << 20, 1 << 20, 2 << 20][i], "--seed", sa.subseed(ck, 80 + i)], label="pressure-%d" % i, timeout=7200))
    return jobs


def run(ck):
    exe = ck.build("asan", ["cache_mon"])["cache_mon"]
    sa.run_jobs(ck, jobs_for(ck, exe, evict=False), sets=("states",))
    ck.assumptions += [
        "hit iff present and now <= deadline (the comparison all back ends implement); virtual clock through a link-time time() shim",
        "a store that a process-shared cache cannot perform for lack of memory may be dropped, but must not leave the previous value for that key",
        "page-level trigger propagation (store_page) needs an HTTP context and is exercised by the C03 monitor; here frames and recorders are driven through cache_interface(service&)",
    ]
    ck.finish("exploration",
              "every operation sequence of depth %d over {store x 2 keys x 3 trigger sets x 2 deadlines, fetch, rise x 3, remove, clear, tick} (21 symbols) on the thread-shared cache and depth %d on the process-shared one, "
              "long random histories over large alphabets (keys that are also trigger names, binary keys, 30-trigger sets, expired-on-arrival entries), shared-memory pressure runs, and cache_interface frame building with nested "
              "trigger recorders; after every operation the fetch result, stats() and a full dump taken through the guarded hook (index invariants included) are compared with an executable model. "
              "non-trivial = distinct model states reached" % ((5, 4) if ck.tier == "thorough" else (4, 3)),
              "ops", "states", min_evals=100000,
              required_nonzero=("hits", "misses_absent", "misses_expired", "rise_killed", "dumps", "frames_built", "sequences", "histories"))
