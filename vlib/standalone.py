"""Helper for properties decided by stand-alone monitor executables."""
import os


def run_jobs(ck, jobs, sets=(), workers=None):
    """jobs: list of dict(exe=, args=[...], label=, timeout=, env=). Each gets its own hashes prefix.
    sets: names of distinct-sets to union across processes. Returns number of usable results."""
    prepared = []
    for i, j in enumerate(jobs):
        prefix = os.path.join(ck.rundir, "h%d" % i)
        cmd = [j["exe"]] + [str(x) for x in j["args"]] + ["--hashes", prefix]
        prepared.append(dict(cmd=cmd, env=j.get("env"), timeout=j.get("timeout", 900), label=j.get("label", ""),
                             stdin=j.get("stdin"), prefix=prefix))
    results = ck.parallel(prepared, workers)
    ok = 0
    for j, r in zip(prepared, results):
        if ck.absorb(r):
            ok += 1
        for s in sets:
            ck.load_hashes(j["prefix"], s)
    return ok


def subseed(ck, i):
    return (ck.seed * 1000003 + i * 7919 + 17) & 0x7FFFFFFF
